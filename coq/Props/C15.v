(* Props/C15.v — property C15: peer authentication precedes credentials and NETCONF traffic.
   Only statements, closed by [exact], each followed by Print Assumptions.
   Model: Model/Auth.v (transport/ssh.py SSHSession.connect/_auth, transport/tls.py
   TLSSession.connect, manager.connect_ssh profile hook).  Spec: Spec/AuthSpec.v.
   PARTIAL by nature (DESIGN section 5 C15, section 8): key exchange, signatures and X.509
   chain/host-name verification are paramiko's and OpenSSL's; their verdicts are the oracle
   records [ssh_oracle]/[tls_oracle] the theorems quantify over. *)
From NC Require Import Model.Base Model.Auth Spec.AuthSpec Proofs.AuthProofs.

(* With verification on, for every configuration and every oracle: each credential offer and
   each session event (open_session, subsystem, exec fallback, hello) has a HostKeyAccepted
   before it, and HostKeyAccepted is emitted only for a reason the property allows: the
   presented key is in the known_hosts file under "host" or "[host]:port" (no key pinned),
   it equals the pinned key, or the callback in force answered True when applied to (the host
   name that was dialled, the fingerprint of the key the server presented). *)
Theorem C15_verify_first : forall (c : ssh_cfg) (o : ssh_oracle),
  c_verify c = true ->
  preceded_by sensitive is_accept (fst (ssh_connect c o)) /\
  (forall h, In (HostKeyAccepted h) (fst (ssh_connect c o)) -> justified c o h).
Proof. exact c15_verify_first. Qed.
Print Assumptions C15_verify_first.

(* Otherwise (no such reason): no credential is offered, nothing of the session happens, and
   connect raises SSHUnknownHostError (or SSHError when it failed even earlier: unusable
   pinned key, failed key exchange). *)
Theorem C15_reject : forall (c : ssh_cfg) (o : ssh_oracle),
  c_verify c = true -> unjustified c o ->
  none_of sensitive (fst (ssh_connect c o)) /\
  (snd (ssh_connect c o) = Exn (SSHUnknownHost HHost (o_server_key o)) \/ snd (ssh_connect c o) = Exn SSHError) /\
  (c_pin c <> PinBad -> o_kex_ok o = true -> snd (ssh_connect c o) = Exn (SSHUnknownHost HHost (o_server_key o))).
Proof. exact c15_reject. Qed.
Print Assumptions C15_reject.

(* All authentication requests refused: no session event at all, the result is
   AuthenticationError (or one of the two earlier errors, with no attempt made), never Ok;
   it is exactly AuthenticationError once the host-key block was passed. *)
Theorem C15_auth_fail : forall (c : ssh_cfg) (o : ssh_oracle),
  all_refused (o_auths o) ->
  none_of session_event (fst (ssh_connect c o)) /\
  none_of is_auth_ok (fst (ssh_connect c o)) /\
  (snd (ssh_connect c o) = Exn Authentication \/
   (none_of is_attempt (fst (ssh_connect c o)) /\
    (snd (ssh_connect c o) = Exn (SSHUnknownHost HHost (o_server_key o)) \/ snd (ssh_connect c o) = Exn SSHError))) /\
  (c_pin c <> PinBad -> o_kex_ok o = true -> snd (hostkey_phase c o) = true ->
   snd (ssh_connect c o) = Exn Authentication).
Proof. exact c15_auth_fail. Qed.
Print Assumptions C15_auth_fail.

(* The inputs of the unknown-host callback are part of the contract.  For every configuration,
   every oracle and EVERY callback function o_cb : host name -> key (fingerprint) -> bool:
   (1) the caller's callback is invoked only with (the dialled host name, the fingerprint of the
   key the server presented), and only when verification is on and it is the callback in force;
   (2) SSHUnknownHostError carries that host name and that fingerprint;
   (3) an acceptance on the caller's callback's authority comes immediately after it was asked
   about exactly those arguments, and its verdict ON THOSE ARGUMENTS was True (what it would
   say about a key stored in known_hosts, or about the "[host]:port" name, does not count);
   (4) a refusal while the caller's callback is in force: it was asked about exactly those
   arguments and said no, nothing else happened;
   (5) connect depends on the callback through that single application only: any other callback
   that agrees with it on (dialled host, presented key) gives the same trace and result. *)
Theorem C15_callback_args : forall (c : ssh_cfg) (o : ssh_oracle),
  (forall s k, In (CallbackAsked s k) (fst (ssh_connect c o)) ->
     s = HHost /\ k = o_server_key o /\ c_verify c = true /\ c_user_cb c = true /\ c_profile_cb c = false) /\
  (forall s k, snd (ssh_connect c o) = Exn (SSHUnknownHost s k) -> s = HHost /\ k = o_server_key o) /\
  (c_profile_cb c = false -> In (HostKeyAccepted ByCallback) (fst (ssh_connect c o)) ->
     c_user_cb c = true /\ o_cb o HHost (o_server_key o) = true /\
     exists post, fst (ssh_connect c o)
                  = StartClient :: CallbackAsked HHost (o_server_key o) :: HostKeyAccepted ByCallback :: post) /\
  (c_verify c = true -> c_profile_cb c = false -> c_user_cb c = true ->
   forall s k, snd (ssh_connect c o) = Exn (SSHUnknownHost s k) ->
     o_cb o HHost (o_server_key o) = false /\
     fst (ssh_connect c o) = [StartClient; CallbackAsked HHost (o_server_key o)]) /\
  (forall f, f HHost (o_server_key o) = o_cb o HHost (o_server_key o) ->
     ssh_connect c (with_cb o f) = ssh_connect c o).
Proof. exact c15_callback_args. Qed.
Print Assumptions C15_callback_args.

(* Several sessions of one process, the known_hosts file changing between them.  [c_known_hosts] of each
   configuration is the content of the file at the time of THAT connect (Model/Auth.v, [ssh_history]).  Whatever
   the earlier and later sessions of the history were (their files, keys, callbacks, outcomes), the connect at
   position [length pre] is exactly the connect a fresh process would make on that file content: with verification
   on every sensitive event follows an acceptance justified by ITS configuration (its file content, its pin, its
   callback), and when the presented key is not justified by them nothing sensitive happens and the unknown-host
   (or earlier SSH) error is raised -- a key that an earlier session's file listed does not count. *)
Theorem C15_fresh_judgement : forall (pre post : list (ssh_cfg * ssh_oracle)) (c : ssh_cfg) (o : ssh_oracle) (r : (trace * result)%type),
  nth_error (ssh_history (pre ++ (c, o) :: post)) (length pre) = Some r ->
  r = ssh_connect c o /\
  (c_verify c = true ->
     preceded_by sensitive is_accept (fst r) /\ (forall h, In (HostKeyAccepted h) (fst r) -> justified c o h)) /\
  (c_verify c = true -> unjustified c o ->
     none_of sensitive (fst r) /\
     (snd r = Exn (SSHUnknownHost HHost (o_server_key o)) \/ snd r = Exn SSHError) /\
     (c_pin c <> PinBad -> o_kex_ok o = true -> snd r = Exn (SSHUnknownHost HHost (o_server_key o)))).
Proof. exact c15_fresh_judgement. Qed.
Print Assumptions C15_fresh_judgement.

(* Unconditionally: every session event is preceded by a granted authentication request, and
   a successful connect sent its hello after one. *)
Theorem C15_session_after_auth : forall (c : ssh_cfg) (o : ssh_oracle),
  preceded_by session_event is_auth_ok (fst (ssh_connect c o)) /\
  (snd (ssh_connect c o) = Ok ->
   In SendHello (fst (ssh_connect c o)) /\ exists m, In (AuthAttempt m true) (fst (ssh_connect c o))).
Proof. exact c15_session_after_auth. Qed.
Print Assumptions C15_session_after_auth.

(* TLS: the hello is preceded by a handshake made with verify_mode = CERT_REQUIRED and with
   check_hostname equal to the caller's flag (every handshake is such); a hello implies the
   handshake succeeded; a failed handshake gives TLSError and no hello; nothing else
   sensitive ever happens on this path. *)
Theorem C15_tls : forall (c : tls_cfg) (o : tls_oracle),
  preceded_by is_hello (fun e => e = Handshake true (t_check_hostname c) (t_server_hostname c))
              (fst (tls_connect c o)) /\
  (forall a b n, In (Handshake a b n) (fst (tls_connect c o)) -> a = true /\ b = t_check_hostname c) /\
  (In SendHello (fst (tls_connect c o)) -> to_handshake_ok o = true) /\
  (to_handshake_ok o = false -> snd (tls_connect c o) = Exn TLSErr /\ ~ In SendHello (fst (tls_connect c o))) /\
  (forall e, In e (fst (tls_connect c o)) -> ~ sensitive e \/ e = SendHello).
Proof. exact c15_tls. Qed.
Print Assumptions C15_tls.

(* ---------------- non-vacuity ---------------- *)
Definition kA : key := (1, 10).     (* two keys of the same type, one of another *)
Definition kB : key := (1, 11).
Definition kC : key := (2, 20).
Definition s_netconf : bytes := [110; 101; 116; 99; 111; 110; 102].

Definition ex_cfg (kh : list kh_entry) (p : pin) (ucb pcb : bool) : ssh_cfg :=
  {| c_verify := true; c_known_hosts := kh; c_pin := p; c_user_cb := ucb; c_profile_cb := pcb;
     c_key_files := 1; c_allow_agent := true; c_look_for_keys := false; c_password := true;
     c_subsystems := [s_netconf]; c_exec_fallback := false |}.
Definition ex_orf (k : key) (cb : hsel -> key -> bool) (auths : list bool) : ssh_oracle :=
  {| o_kex_ok := true; o_server_key := k; o_cb := cb; o_loads := [true]; o_agent_keys := 1;
     o_default_keys := 0; o_auths := auths; o_opens := [true]; o_subs := [true]; o_hello_ok := true |}.
Definition ex_or (k : key) (cb : bool) (auths : list bool) : ssh_oracle :=
  {| o_kex_ok := true; o_server_key := k; o_cb := fun _ _ => cb; o_loads := [true]; o_agent_keys := 1;
     o_default_keys := 0; o_auths := auths; o_opens := [true]; o_subs := [true]; o_hello_ok := true |}.

(* known under "[host]:port", third credential accepted: full run *)
Example C15_ex_known_port :
  ssh_connect (ex_cfg [(HOther, kA); (HHostPort, kB)] PinAbsent false false) (ex_or kB false [false; false; true])
  = ([StartClient; HostKeyAccepted (ByKnownHosts HHostPort);
      AuthAttempt (MKeyFile 0) false; AuthAttempt (MAgent 0) false; AuthAttempt MPassword true;
      OpenSession; InvokeSubsystem s_netconf; SendHello], Ok).
Proof. vm_compute. reflexivity. Qed.

(* the hypotheses of C15_reject are satisfiable: key known for another host only, default callback *)
Example C15_ex_reject :
  unjustified (ex_cfg [(HOther, kB); (HHost, kA)] PinAbsent false false) (ex_or kB true [true]) /\
  ssh_connect (ex_cfg [(HOther, kB); (HHost, kA)] PinAbsent false false) (ex_or kB true [true])
  = ([StartClient], Exn (SSHUnknownHost HHost kB)).
Proof.
  split; [|vm_compute; reflexivity].
  unfold unjustified; simpl. split; [reflexivity|]. split; intros [H|[H|[]]]; discriminate.
Qed.

(* a pinned key replaces known_hosts: a different pin rejects although known_hosts matches *)
Example C15_ex_pin_wins :
  ssh_connect (ex_cfg [(HHost, kB)] (PinKey kA) false false) (ex_or kB false [true])
  = ([StartClient], Exn (SSHUnknownHost HHost kB)).
Proof. vm_compute. reflexivity. Qed.

(* caller's callback asked and accepting; profile override accepts without asking it *)
Example C15_ex_callback :
  fst (ssh_connect (ex_cfg [] PinAbsent true false) (ex_or kC true [true]))
  = [StartClient; CallbackAsked HHost kC; HostKeyAccepted ByCallback; AuthAttempt (MKeyFile 0) true;
     OpenSession; InvokeSubsystem s_netconf; SendHello] /\
  fst (ssh_connect (ex_cfg [] (PinKey kA) true true) (ex_or kC false [true]))
  = [StartClient; HostKeyAccepted ByCallback; AuthAttempt (MKeyFile 0) true;
     OpenSession; InvokeSubsystem s_netconf; SendHello].
Proof. vm_compute. split; reflexivity. Qed.

(* a callback that decides by fingerprint: the operator trusts only the key kB that is stored in
   known_hosts for the host.  A server presenting kA (same key type) is shown to the callback
   as kA and refused (the error names kA), under the "host" entry, the "[host]:port" entry and
   both; the same callback accepts a server that presents kB when known_hosts is empty.  A
   callback that accepts only when called with the "[host]:port" name never accepts: it is
   called with the bare host name. *)
Definition only_key (k0 : key) : hsel -> key -> bool := fun _ k => key_eqb k0 k.
Definition only_host (s0 : hsel) : hsel -> key -> bool := fun s _ => hsel_eqb s0 s.
Example C15_ex_callback_fingerprint :
  ssh_connect (ex_cfg [(HHost, kB)] PinAbsent true false) (ex_orf kA (only_key kB) [true])
  = ([StartClient; CallbackAsked HHost kA], Exn (SSHUnknownHost HHost kA)) /\
  ssh_connect (ex_cfg [(HHostPort, kB)] PinAbsent true false) (ex_orf kA (only_key kB) [true])
  = ([StartClient; CallbackAsked HHost kA], Exn (SSHUnknownHost HHost kA)) /\
  ssh_connect (ex_cfg [(HHost, kB); (HHostPort, kB)] PinAbsent true false) (ex_orf kA (only_key kB) [true])
  = ([StartClient; CallbackAsked HHost kA], Exn (SSHUnknownHost HHost kA)) /\
  fst (ssh_connect (ex_cfg [] PinAbsent true false) (ex_orf kB (only_key kB) [true]))
  = [StartClient; CallbackAsked HHost kB; HostKeyAccepted ByCallback; AuthAttempt (MKeyFile 0) true;
     OpenSession; InvokeSubsystem s_netconf; SendHello] /\
  ssh_connect (ex_cfg [(HHostPort, kB)] PinAbsent true false) (ex_orf kA (only_host HHostPort) [true])
  = ([StartClient; CallbackAsked HHost kA], Exn (SSHUnknownHost HHost kA)) /\
  unjustified (ex_cfg [(HHost, kB)] PinAbsent true false) (ex_orf kA (only_key kB) [true]).
Proof.
  repeat split; try (vm_compute; reflexivity).
  all: simpl; intros [H|[]]; discriminate.
Qed.

(* the write-through update of l.305-312: with "host" -> kA and "[host]:port" -> kB of the
   same key type, the "[host]:port" key is accepted (as a "host" hit) and kA, although in the
   file under "host", is refused — a false reject, on the safe side of the property *)
Example C15_ex_shadowed :
  ssh_connect (ex_cfg [(HHost, kA); (HHostPort, kB)] PinAbsent false false) (ex_or kA false [true])
  = ([StartClient], Exn (SSHUnknownHost HHost kA)) /\
  fst (hostkey_phase (ex_cfg [(HHost, kA); (HHostPort, kB)] PinAbsent false false) (ex_or kB false [true]))
  = [HostKeyAccepted (ByKnownHosts HHost)].
Proof. vm_compute. split; reflexivity. Qed.

(* all credentials refused: AuthenticationError after three attempts, nothing else *)
Example C15_ex_auth_fail :
  all_refused [false; false; false] /\
  ssh_connect (ex_cfg [(HHost, kA)] PinAbsent false false) (ex_or kA false [false; false; false])
  = ([StartClient; HostKeyAccepted (ByKnownHosts HHost);
      AuthAttempt (MKeyFile 0) false; AuthAttempt (MAgent 0) false; AuthAttempt MPassword false],
     Exn Authentication).
Proof. split; [intros b [<-|[<-|[<-|[]]]]; reflexivity | vm_compute; reflexivity]. Qed.

Definition ex_tcfg (ch : bool) : tls_cfg :=
  {| t_host_given := true; t_certfile_given := true; t_protocol_given := true;
     t_check_hostname := ch; t_ca_given := true; t_server_hostname := false |}.
Definition ex_tor (hs : bool) : tls_oracle :=
  {| to_load_cert := LOk; to_load_ca := LOk; to_connect_ok := true; to_handshake_ok := hs; to_hello_ok := true |}.

Example C15_ex_tls_ok :
  tls_connect (ex_tcfg false) (ex_tor true)
  = ([TlsLoadCert; TlsLoadCA; TlsConnect; Handshake true false false; SendHello], Ok).
Proof. vm_compute. reflexivity. Qed.

Example C15_ex_tls_fail :
  tls_connect (ex_tcfg true) (ex_tor false)
  = ([TlsLoadCert; TlsLoadCA; TlsConnect; Handshake true true false], Exn TLSErr).
Proof. vm_compute. reflexivity. Qed.

(* the host is re-keyed between two sessions of one process: known_hosts listed kA, now lists kB; a server
   that still shows kA was taken to authentication by the first session and is refused by the second, while
   the server with the new key is accepted by a third *)
Example C15_ex_history_rekeyed :
  map snd (ssh_history [(ex_cfg [(HHost, kA)] PinAbsent false false, ex_or kA false [false; false; false]);
                        (ex_cfg [(HHost, kB)] PinAbsent false false, ex_or kA false [true]);
                        (ex_cfg [(HHost, kB)] PinAbsent false false, ex_or kB false [true])])
  = [Exn Authentication; Exn (SSHUnknownHost HHost kA); Ok].
Proof. vm_compute. reflexivity. Qed.
