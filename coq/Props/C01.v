(* Props/C01.v — property C01: inbound framing is independent of stream segmentation and chunking.
   Only statements, closed by [exact], each followed by Print Assumptions.
   Models: Model/Framing10.v, Model/Framing11.v (DefaultXMLParser.parse/_parse10/_parse11 of
   ncclient/transport/parser.py after the fixes for F1, F2, F3, F3b), Model/Utf8.v.
   Spec: Spec/RefFraming.v (byte-at-a-time automata ref10/ref11, encoders enc10/enc11).
   [feed_all feed st segs] feeds the reads [segs] one after the other and returns the events of
   each read; [events] is their concatenation.  A read may be empty or of any size (the
   transports' 4096-octet reads are a special case). *)
From NC Require Import Model.Base Model.Utf8 Model.Framing10 Model.Framing11 Spec.RefFraming.
From NC Require Import Proofs.ListFacts Proofs.Utf8Facts Proofs.Framing10Proofs Proofs.Framing11Proofs Proofs.FramingProofs.
From NC Require Import Model.JunosParse Proofs.JunosParseProofs Proofs.HandoverProofs.
From NC Require Import Proofs.FirstCharProofs.

(* Refinement, 1.0: for every segmentation, read by read, the parser produces exactly the events
   the reference automaton produces while it consumes the same octets one at a time: nothing is
   delivered before the last octet of its terminator was fed, nothing after a terminator is
   lost, and the model never runs out of fuel (the reference has no such event). *)
Theorem C01_sim10 : forall segs : list bytes,
  snd (feed_all feed10 init10 segs) = snd (feed_all ref10 rinit10 segs).
Proof. exact c01_sim10. Qed.
Print Assumptions C01_sim10.

(* Refinement, 1.1 (chunked framing). *)
Theorem C01_sim11 : forall segs : list bytes,
  snd (feed_all feed11 init11 segs) = snd (feed_all ref11 rinit11 segs).
Proof. exact c01_sim11. Qed.
Print Assumptions C01_sim11.

(* Hence the events depend on the concatenation of the reads only. *)
Theorem C01_segmentation_independent : forall segs : list bytes,
  events feed10 init10 segs = snd (ref10 rinit10 (concat segs)) /\
  events feed11 init11 segs = snd (ref11 rinit11 (concat segs)).
Proof. intros segs. split; [apply c01_seg_indep10 | apply c01_seg_indep11]. Qed.
Print Assumptions C01_segmentation_independent.

(* Round trip 1.0: messages (valid UTF-8) whose terminator is the first delimiter of their frame
   ([clean10]: "]]>]]>" does not occur in the message followed by the first five octets of the
   terminator) decode to themselves modulo surrounding white space (str.strip). *)
Theorem C01_roundtrip10 : forall msgs : list bytes,
  Forall clean10 msgs -> Forall (fun m => utf8_valid m = true) msgs ->
  ref10 rinit10 (enc10 msgs) = (rinit10, map (fun m => Deliver (strip m)) msgs).
Proof. exact c01_roundtrip10. Qed.
Print Assumptions C01_roundtrip10.

(* A natural sufficient condition for [clean10]: "]]>" does not occur in the message. *)
Theorem C01_clean10_sufficient : forall m : bytes, ~ occurs [93; 93; 62] m -> clean10 m.
Proof. exact clean10_sufficient. Qed.
Print Assumptions C01_clean10_sufficient.

(* Round trip 1.1: a message is given with its chunking (the list of its non-empty chunks, cut at
   octet granularity: inside a multi-byte character or a delimiter look-alike are ordinary
   members); every chunking of every message list decodes to the messages, text intact. *)
Theorem C01_roundtrip11 : forall css : list (list bytes),
  Forall (Forall (fun c => c <> [])) css -> Forall (fun cs => utf8_valid (concat cs) = true) css ->
  ref11 rinit11 (enc11 css) = (rinit11, map (fun cs => Deliver (concat cs)) css).
Proof. exact c01_roundtrip11. Qed.
Print Assumptions C01_roundtrip11.

(* Headline: whatever the messages, their chunking and the cut of the stream into reads, the
   parser's events are exactly one delivery per message, in order, and no exception. *)
Theorem C01_framing_independent :
  (forall (msgs segs : list bytes),
     Forall clean10 msgs -> Forall (fun m => utf8_valid m = true) msgs ->
     concat segs = enc10 msgs ->
     events feed10 init10 segs = map (fun m => Deliver (strip m)) msgs) /\
  (forall (css : list (list bytes)) (segs : list bytes),
     Forall (Forall (fun c => c <> [])) css -> Forall (fun cs => utf8_valid (concat cs) = true) css ->
     concat segs = enc11 css ->
     events feed11 init11 segs = map (fun cs => Deliver (concat cs)) css).
Proof. split; [exact c01_framing_independent10 | exact c01_framing_independent11]. Qed.
Print Assumptions C01_framing_independent.

(* ---- non-vacuity: two messages, a 2-byte and a 4-byte character, chunk boundaries inside both
   characters, reads cut inside the chunk header and inside the characters ---- *)
Definition ex_m1 : bytes := [60; 97; 62; 195; 169; 60; 47; 97; 62].          (* <a>é</a> *)
Definition ex_m2 : bytes := [32; 240; 159; 152; 128; 10].                      (* " 😀\n" *)
Definition ex_css : list (list bytes) :=
  [[[60; 97; 62; 195]; [169; 60; 47; 97; 62]]; [[32; 240; 159]; [152; 128; 10]]].
Definition ex_cut (s : bytes) : list bytes :=      (* reads of 3, 1, 9, 0, 2 octets and the rest *)
  [firstn 3 s; firstn 1 (skipn 3 s); firstn 9 (skipn 4 s); []; firstn 2 (skipn 13 s); skipn 15 s].

Example C01_ex_hyp11 : Forall (Forall (fun c : bytes => c <> [])) ex_css /\
  Forall (fun cs => utf8_valid (concat cs) = true) ex_css /\
  concat (ex_cut (enc11 ex_css)) = enc11 ex_css /\ map (@concat N) ex_css = [ex_m1; ex_m2].
Proof. repeat split; repeat constructor; discriminate. Qed.

Example C01_ex_run11 :
  snd (feed_all feed11 init11 (ex_cut (enc11 ex_css))) = [[]; []; []; []; []; [Deliver ex_m1; Deliver ex_m2]] /\
  snd (feed_all feed11 init11 (map (fun x => [x]) (enc11 ex_css))) =
  snd (feed_all ref11 rinit11 (map (fun x => [x]) (enc11 ex_css))).
Proof. vm_compute. split; reflexivity. Qed.

Example C01_ex_hyp10 : Forall clean10 [ex_m1; ex_m2] /\ Forall (fun m => utf8_valid m = true) [ex_m1; ex_m2] /\
  concat (ex_cut (enc10 [ex_m1; ex_m2])) = enc10 [ex_m1; ex_m2].
Proof.
  repeat split; repeat constructor; unfold clean10; apply find_none; vm_compute; reflexivity.
Qed.

Example C01_ex_run10 :
  events feed10 init10 (ex_cut (enc10 [ex_m1; ex_m2])) = [Deliver ex_m1; Deliver [240; 159; 152; 128]] /\
  events feed10 init10 (map (fun x => [x]) (enc10 [ex_m1; ex_m2])) = [Deliver ex_m1; Deliver [240; 159; 152; 128]].
Proof. vm_compute. split; reflexivity. Qed.

(* ---------------- the session's parser is the Junos streaming parser (device_params use_filter, 1.0 framing) ----------------
   Model: Model/JunosParse.v (JunosXMLParser.parse, DefaultXMLParser._parse10 after the switch to DOM parsing and its branch
   `type(self._session.parser) != DefaultXMLParser: self._session.parser.parse(remaining)`, SAXParserHandler.callback), tied
   to the code by C18 and by C01's Junos cases.  [W] is the session side, [X] expat + the SAX handler of one reply, both
   arbitrary.  A message is [handed] when, in every state of the session side, the streaming parser of a new reply signals the
   switch to DOM parsing before it has a root and before it wrote anything (a <notification>, a reply to a request without
   filter) and dispatching it reinstalls the streaming parser.
   For every list of such messages (each valid as a 1.0 frame: [clean10]), every incomplete message [tail] after the last
   terminator and EVERY cut of these octets into reads: exactly one dispatch per message, in order, each the octets of its
   frame without the leading ASCII white space (Session._dispatch_message gets it decoded and stripped); nothing is
   dispatched for [tail] (no terminator yet), nothing that follows a terminator is lost. *)
Theorem C01_handover_delivery :
  forall (W X : Type) (xnew : W -> X) (xstep : W -> X -> N -> xres X) (xrooted : X -> bool)
         (dispatch : W -> bool -> bytes -> dres W),
    (forall w x c x' o, xstep w x c = XOk x' o -> xrooted x = true -> xrooted x' = true) ->
    (forall w, xrooted (xnew w) = false) ->
    forall (msgs : list bytes) (tail : bytes) (reads : list bytes) (w : W),
      Forall clean10 msgs -> Forall (handed W X xnew xstep xrooted dispatch) msgs -> find_sub delim10 tail = None ->
      reads <> [] -> concat reads = enc10 msgs ++ tail ->
      outs (JunosParse.run W X xnew xstep xrooted dispatch (JunosParse.init W X xnew w) reads) =
      map (fun m => (false, blstrip m)) msgs.
Proof. exact handover_delivery. Qed.
Print Assumptions C01_handover_delivery.

(* The hand-over itself: after the reads the session is exactly a NEW streaming parser - nothing held back, no head, no
   output - that was given, as one read and unchanged, the octets following the last terminator (when they are not blank:
   `if len(remaining.strip()) > 0`). *)
Theorem C01_handover_next :
  forall (W X : Type) (xnew : W -> X) (xstep : W -> X -> N -> xres X) (xrooted : X -> bool)
         (dispatch : W -> bool -> bytes -> dres W),
    (forall w x c x' o, xstep w x c = XOk x' o -> xrooted x = true -> xrooted x' = true) ->
    (forall w, xrooted (xnew w) = false) ->
    forall (msgs : list bytes) (tail : bytes) (reads : list bytes) (w : W),
      msgs <> [] -> Forall clean10 msgs -> Forall (handed W X xnew xstep xrooted dispatch) msgs ->
      find_sub delim10 tail = None -> reads <> [] -> concat reads = enc10 msgs ++ tail ->
      exists w' f',
        JunosParse.run W X xnew xstep xrooted dispatch (JunosParse.init W X xnew w) reads =
        let fresh := JunosParse.fresh W X xnew w' (map (fun m => (false, blstrip m)) msgs) f' in
        if bblank tail then fresh else JunosParse.parse W X xnew xstep xrooted dispatch fresh tail.
Proof. exact handover_next. Qed.
Print Assumptions C01_handover_next.

(* ... and these dispatches are the deliveries of the reference automaton of C01 on the same octets. *)
Theorem C01_handover_ref :
  forall (W X : Type) (xnew : W -> X) (xstep : W -> X -> N -> xres X) (xrooted : X -> bool)
         (dispatch : W -> bool -> bytes -> dres W),
    (forall w x c x' o, xstep w x c = XOk x' o -> xrooted x = true -> xrooted x' = true) ->
    (forall w, xrooted (xnew w) = false) ->
    forall (msgs reads : list bytes) (w : W),
      Forall clean10 msgs -> Forall (handed W X xnew xstep xrooted dispatch) msgs ->
      Forall (fun m => utf8_valid m = true) msgs -> reads <> [] -> concat reads = enc10 msgs ->
      map (fun p => Deliver (strip (snd p)))
          (outs (JunosParse.run W X xnew xstep xrooted dispatch (JunosParse.init W X xnew w) reads)) =
      snd (ref10 rinit10 (concat reads)).
Proof. exact handover_ref. Qed.
Print Assumptions C01_handover_ref.

(* non-vacuity: a machine that signals the switch at the first ">" (the end of the root's start tag), a session side that
   counts the dispatches and reinstalls the streaming parser; two messages (é inside the first, white space around the
   second), an incomplete third one; reads cut inside the first start tag, the character and both terminators *)
Definition hx_step (w : nat) (x : unit) (c : N) : xres unit := if N.eqb c 62 then XSwitch [] else XOk tt [].
Definition hx_dispatch (w : nat) (via_sax : bool) (m : bytes) : dres nat := DOk (S w) true.
Definition ex_h2 : bytes := [32; 60; 101; 47; 62; 10].                          (* " <e/>\n" *)
Definition ex_tail : bytes := [10; 60; 110; 111; 116; 105; 93; 93; 62; 93].      (* "\n<noti]]>]" *)
Definition hx_run := JunosParse.run nat unit (fun _ => tt) hx_step (fun _ => false) hx_dispatch.
Definition hx_init := JunosParse.init nat unit (fun _ => tt) 0%nat.

Example C01_ex_handover_hyp :
  Forall clean10 [ex_m1; ex_h2] /\
  Forall (handed nat unit (fun _ => tt) hx_step (fun _ => false) hx_dispatch) [ex_m1; ex_h2] /\
  find_sub delim10 ex_tail = None /\
  concat (ex_cut (enc10 [ex_m1; ex_h2] ++ ex_tail)) = enc10 [ex_m1; ex_h2] ++ ex_tail.
Proof.
  repeat split; repeat constructor;
    try (unfold clean10; apply find_none; vm_compute; reflexivity);
    try (intros w; eexists; vm_compute; reflexivity).
Qed.

Example C01_ex_handover_run :
  outs (hx_run hx_init (ex_cut (enc10 [ex_m1; ex_h2] ++ ex_tail))) = [(false, ex_m1); (false, [60; 101; 47; 62; 10])] /\
  outs (hx_run hx_init (map (fun x => [x]) (enc10 [ex_m1; ex_h2] ++ ex_tail))) = [(false, ex_m1); (false, [60; 101; 47; 62; 10])] /\
  map (fun r => length (outs (hx_run hx_init r)))
      [[firstn 14 (enc10 [ex_m1; ex_h2])]; [firstn 15 (enc10 [ex_m1; ex_h2])]; [firstn 26 (enc10 [ex_m1; ex_h2])];
       [firstn 27 (enc10 [ex_m1; ex_h2])]] = [0; 1; 1; 2]%nat.
Proof. vm_compute. repeat split; reflexivity. Qed.

(* ---------------- the first character of a message: U+FEFF (byte order mark, octets EF BB BF = [bom]) ----------------
   Decoding in the model is bytes.decode('UTF-8'), not the 'utf-8-sig' codec: the decoded text has exactly the octets that
   were decoded, so a leading U+FEFF (legal in front of an XML document, with or without XML declaration) is kept ... *)
Theorem C01_decode_keeps_bom :
  (forall b t : bytes, decode_strict b = Some t -> t = b) /\
  (forall m : bytes, utf8_valid m = true -> decode_strict (bom ++ m) = Some (bom ++ m)) /\
  (forall m : bytes, decode_strict (bom ++ m) <> Some m).
Proof. repeat split; [exact decode_strict_id | exact decode_keeps_bom | exact decode_bom_not_dropped]. Qed.
Print Assumptions C01_decode_keeps_bom.

(* ... and str.strip keeps it (U+FEFF is not white space; rstrip stops at it at the latest). *)
Theorem C01_strip_keeps_bom : forall m : bytes, exists k, strip (bom ++ m) = bom ++ k.
Proof. exact strip_keeps_bom. Qed.
Print Assumptions C01_strip_keeps_bom.

(* Hence a message whose text begins with U+FEFF reaches the listeners with it under BOTH framings, for every chunking
   (chunk boundaries inside the three octets included: [cs] is any list of non-empty chunks whose concatenation is the message)
   and every cut of either stream into reads; the 1.0 delivery is str.strip of the 1.1 delivery and still begins with U+FEFF. *)
Theorem C01_first_char_bom : forall (cs : list bytes) (m : bytes) (segs10 segs11 : list bytes),
  Forall (fun c => c <> []) cs -> concat cs = bom ++ m -> utf8_valid m = true -> clean10 (bom ++ m) ->
  concat segs10 = enc10 [bom ++ m] -> concat segs11 = enc11 [cs] ->
  events feed11 init11 segs11 = [Deliver (bom ++ m)] /\
  events feed10 init10 segs10 = [Deliver (strip (bom ++ m))] /\
  firstn 3 (strip (bom ++ m)) = bom.
Proof. exact c01_bom_both. Qed.
Print Assumptions C01_first_char_bom.

(* non-vacuity: U+FEFF <?xml?> <a>é</a> LF; chunks of 1, 1 and the remaining octets (boundaries inside the mark), reads cut inside
   the mark as well; and U+FEFF alone, U+FEFF twice *)
Definition ex_bm : bytes := [60; 63; 120; 109; 108; 63; 62] ++ ex_m1 ++ [10].          (* "<?xml?><a>é</a>" LF (body of the example) *)
Definition ex_bcs : list bytes := [[239]; [187]; 191 :: ex_bm].
Definition ex_bcut (s : bytes) : list bytes := [firstn 4 s; firstn 1 (skipn 4 s); firstn 3 (skipn 5 s); skipn 8 s].
Definition ex_bcut10 (s : bytes) : list bytes := [firstn 1 s; firstn 1 (skipn 1 s); skipn 2 s].

Example C01_ex_bom_hyp :
  Forall (fun c : bytes => c <> []) ex_bcs /\ concat ex_bcs = bom ++ ex_bm /\ utf8_valid ex_bm = true /\ clean10 (bom ++ ex_bm) /\
  concat (ex_bcut10 (enc10 [bom ++ ex_bm])) = enc10 [bom ++ ex_bm] /\ concat (ex_bcut (enc11 [ex_bcs])) = enc11 [ex_bcs].
Proof.
  repeat split; repeat constructor; try discriminate; unfold clean10; apply find_none; vm_compute; reflexivity.
Qed.

Example C01_ex_bom_run :
  events feed11 init11 (ex_bcut (enc11 [ex_bcs])) = [Deliver (bom ++ ex_bm)] /\
  events feed10 init10 (ex_bcut10 (enc10 [bom ++ ex_bm])) = [Deliver (bom ++ [60; 63; 120; 109; 108; 63; 62] ++ ex_m1)] /\
  events feed11 init11 [enc11 [[bom]; [[239; 187]; [191; 239]; [187; 191]]]] = [Deliver bom; Deliver (bom ++ bom)] /\
  events feed10 init10 [enc10 [bom; bom ++ bom]] = [Deliver bom; Deliver (bom ++ bom)].
Proof. vm_compute. repeat split; reflexivity. Qed.
