(* Props/C01.v — placeholder while the proofs are being moved in (replaced by the theorems). *)
From NC Require Import Model.Base Model.Utf8 Model.Framing10 Model.Framing11 Spec.RefFraming.
Example C01_placeholder : deliveries (snd (ref11 rinit11 (enc11 [[[97; 98]; [99]]]))) = [[97; 98; 99]].
Proof. vm_compute. reflexivity. Qed.
Print Assumptions C01_placeholder.
