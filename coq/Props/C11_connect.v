(* Props/C11_connect.v — C11 in the connect window: notifications the server sends right behind its <hello> (before
   _post_connect has woken up or returned) are queued like any other.  Model: Model/ConnectWindow.v; the server's messages
   are the environment: the session thread may dispatch anything at any moment after start(). *)
From NC Require Import Model.Base Model.ConnectWindow Proofs.ConnectWindowProofs.

(* The NotificationHandler is in _listeners at every reachable state in which the session thread exists. *)
Theorem C11_connect_listener_first : forall s, creach s -> c_w s <> CWOff -> c_lisn s = true.
Proof. exact c11_connect_listener_first. Qed.
Print Assumptions C11_connect_listener_first.

(* No notification is ever dispatched to a snapshot of the listeners without NotificationHandler. *)
Theorem C11_connect_nothing_lost : forall s, creach s -> c_lost s = [].
Proof. exact c11_connect_nothing_lost. Qed.
Print Assumptions C11_connect_nothing_lost.

(* What was taken, then what is queued, then the notification being enqueued right now = the notifications dispatched so
   far: each once, in arrival order - from the first message on. *)
Theorem C11_connect_queue_history : forall s, creach s -> c_taken s ++ c_nq s ++ cpend (c_w s) = c_disp s.
Proof. exact c11_connect_queue_history. Qed.
Print Assumptions C11_connect_queue_history.

(* A dispatched notification is enqueued by the worker's next step; the worker can do nothing else in between. *)
Theorem C11_connect_dispatch_enqueues : forall s n s', creach s -> cstep s (CWDispNotif n) = Some s' ->
  c_w s' = CWPut n /\ cstep s' (CNqPut n) <> None /\
  (forall l s'', cstep s' l = Some s'' -> c_w s'' <> c_w s' -> l = CNqPut n /\ c_nq s'' = c_nq s' ++ [n]).
Proof. exact c11_connect_dispatch_enqueues. Qed.
Print Assumptions C11_connect_dispatch_enqueues.

(* take_notification returns None with the worker between two messages only when everything dispatched has been returned. *)
Theorem C11_connect_complete : forall s s', creach s -> c_w s = CWIdle -> cstep s (CTake false 0) = Some s' ->
  c_taken s = c_disp s.
Proof. exact c11_connect_complete. Qed.
Print Assumptions C11_connect_complete.

(* _post_connect returns only after the server's hello reached the registered hello handler. *)
Theorem C11_connect_return_after_hello : forall s, creach s ->
  (c_m s = CM4 \/ c_m s = CM5 \/ c_m s = CMRet) -> c_ev s = true.
Proof. exact c11_connect_return_after_hello. Qed.
Print Assumptions C11_connect_return_after_hello.

(* Non-vacuity: the worker dispatches the hello and two notifications before the connecting thread wakes up, a third one
   before it returns; all three come out in order, then the queue is empty.  A program order in which the hello handler is
   registered and the thread started before the NotificationHandler is not a run of the model. *)
Example C11_connect_ex :
  match crun cinit [CRegNotif; CRegHello; CStart; CWDispHello; CWDispNotif 1; CNqPut 1; CWDispNotif 2; CNqPut 2; CWake;
                    CWDispNotif 3; CUnregHello; CNqPut 3; CRet; CTake true 1; CTake true 2; CTake true 3; CTake false 0] with
  | Some s => c_taken s = [1; 2; 3] /\ c_nq s = [] /\ c_disp s = [1; 2; 3] /\ c_lost s = [] /\ c_m s = CMRet
  | None => False
  end /\
  crun cinit [CRegHello; CStart; CWDispHello; CWDispNotif 1] = None /\
  crun cinit [CRegNotif; CRegHello; CStart; CWDispNotif 1; CWDispNotif 2] = None /\
  crun cinit [CRegNotif; CRegHello; CStart; CWake] = None.
Proof. vm_compute. repeat split; reflexivity. Qed.
