(* Props/C06.v — property C06: rpc-error surfacing follows raise mode, severity and exemptions.
   Only statements, closed by [exact], each followed by Print Assumptions.
   Model: Model/RpcErrors.v (rpc.py RPCError/RPCReply/RPC._request, devices/default.py, manager.py,
   after fixes F4, F5, F7).  Spec: Spec/RpcErrorsSpec.v (read that file).
   Open finding F6 (sig ok_child_and_rpc_error): a reply with an <ok/> child AND rpc-errors reports
   ok and no errors; [C06_ok_iff]/[C06_errors_mirror] therefore carry the guard [has_ok_child root = false]
   and [C06_ok_iff_refuted] records the witness of the unguarded statement. *)
From Coq Require Import String.
From NC Require Import Model.Base Model.Lit Model.RpcErrors Spec.RpcErrorsSpec Proofs.BaseFacts Proofs.RpcErrorsProofs.
From NC Require Import Model.ConnectHistory Spec.ConnectHistorySpec Proofs.ConnectHistoryProofs.

(* The error list is the list of the reply's rpc-error elements, in document order, each mirrored
   field by field (type, tag, app-tag, severity, info, path, message; last child of a name wins). *)
Theorem C06_errors_mirror : forall root,
  has_ok_child root = false -> tag_of root <> q_rpc_error ->
  parse_errors root = map mirror (reply_rpc_errors root).
Proof. exact c06_errors_mirror. Qed.
Print Assumptions C06_errors_mirror.

(* ok is true iff the reply contains no rpc-error (guard: no <ok/> child, finding F6);
   .error is the first of them. *)
Theorem C06_ok_iff : forall root,
  has_ok_child root = false -> tag_of root <> q_rpc_error ->
  (reply_ok root = true <-> reply_rpc_errors root = []) /\
  reply_error root = hd_error (map mirror (reply_rpc_errors root)).
Proof. exact c06_ok_iff. Qed.
Print Assumptions C06_ok_iff.

(* As coded (F6): an <ok/> child hides every rpc-error ... *)
Theorem C06_ok_child_masks : forall root,
  has_ok_child root = true -> parse_errors root = [] /\ reply_ok root = true.
Proof. exact c06_ok_child_masks. Qed.
Print Assumptions C06_ok_child_masks.

(* ... so the unguarded "ok iff no rpc-error" is false of the faithful model.  Witness:
   <rpc-reply><ok/><rpc-error/></rpc-reply>. *)
Definition f6_witness : node :=
  Elem (lit "{urn:ietf:params:xml:ns:netconf:base:1.0}rpc-reply"%string) [] None []
    [Elem q_ok [] None [] []; Elem q_rpc_error [] None [] []].
Theorem C06_ok_iff_refuted :
  ~ (forall root, reply_ok root = true <-> reply_rpc_errors root = []).
Proof.
  intros H. destruct (H f6_witness) as [H1 _]. specialize (H1 eq_refl). vm_compute in H1. discriminate.
Qed.
Print Assumptions C06_ok_iff_refuted.

(* A synchronous call raises exactly when the property sentence says so, for every error list,
   every mode value and every pattern set (patterns within the modelled str.lower() domain). *)
Theorem C06_decide_spec : forall mode errors pats,
  Forall modelled_text pats ->
  raises (decide mode errors (classify pats)) = should_raise mode errors pats.
Proof. exact c06_decide_spec. Qed.
Print Assumptions C06_decide_spec.

Theorem C06_never_under_NONE : forall errors c, decide MODE_NONE errors c = Return.
Proof. exact c06_never_under_NONE. Qed.
Print Assumptions C06_never_under_NONE.

(* What is raised: a lone error itself; otherwise an aggregate that carries every error, in order. *)
Theorem C06_aggregate_all : forall mode errors c,
  raises (decide mode errors c) = true ->
  match errors with
  | [] => False
  | [e] => decide mode errors c = RaiseSingle e
  | _ => decide mode errors c = RaiseAggregate errors
  end.
Proof. exact c06_aggregate_all. Qed.
Print Assumptions C06_aggregate_all.

Theorem C06_aggregate_carries : forall mode errors c es,
  decide mode errors c = RaiseAggregate es -> es = errors /\ (2 <= length errors)%nat.
Proof. exact c06_aggregate_carries. Qed.
Print Assumptions C06_aggregate_carries.

(* The aggregate's severity is 'error' iff at least one constituent's is (else 'warning'). *)
Theorem C06_aggregate_severity : forall es,
  (agg_severity es = s_error <-> exists e, In e es /\ e_severity e = Some s_error) /\
  (agg_severity es = s_error \/ agg_severity es = s_warning).
Proof. exact c06_aggregate_severity. Qed.
Print Assumptions C06_aggregate_severity.

(* The four-list matcher built by the handler's constructor is "some pattern matches, with '*'
   semantics, case-insensitively", including the degenerate patterns. *)
Theorem C06_match_spec : forall pats m,
  Forall modelled_text pats -> modelled_text (match m with Some t => t | None => [] end) ->
  (exempt (classify pats) m = true <-> is_exempt pats m).
Proof. exact c06_match_spec. Qed.
Print Assumptions C06_match_spec.

Theorem C06_match_degenerate : forall t,
  matches [STAR] t /\ matches [STAR; STAR] t /\ (matches [] t <-> t = []).
Proof. intros t. split; [apply matches_star|split; [apply matches_starstar|apply matches_empty]]. Qed.
Print Assumptions C06_match_degenerate.

(* The executable pattern semantics used by [should_raise] is the declarative one. *)
Theorem C06_matchesb_iff : forall p t, matchesb p t = true <-> matches p t.
Proof. exact matchesb_iff. Qed.
Print Assumptions C06_matchesb_iff.

(* "Case-insensitive": two texts have the same [lower] iff they are equal up to the case of ASCII letters. *)
Theorem C06_lower_is_case_folding : forall a b, lower a = lower b <-> Forall2 ci_eq a b.
Proof. exact lower_ci. Qed.
Print Assumptions C06_lower_is_case_folding.

(* Exempt = a pattern of the device profile OR of the user matches (fix F7). *)
Theorem C06_profile_or_user : forall profile user m,
  exempt (classify (handler_patterns profile user)) m = true <->
  exists p, (In p profile \/ In p (match user with Some u => u | None => [] end)) /\ matches p (normalised m).
Proof. exact c06_profile_or_user. Qed.
Print Assumptions C06_profile_or_user.

(* ---------- histories of connects that share the caller's dictionaries (Model/ConnectHistory.v) ---------- *)
(* A connect (any route, refused or not) hands the caller's objects on as they were; so does a whole history. *)
Theorem C06_connect_frame : forall profiles p st, fst (connect_step profiles p st) = p.
Proof. exact c06_connect_frame. Qed.
Print Assumptions C06_connect_frame.

Theorem C06_history_frame : forall profiles p steps, fst (run_history profiles p steps) = p.
Proof. exact c06_history_frame. Qed.
Print Assumptions C06_history_frame.

(* The k-th result of a history is what that connect alone gives on the untouched objects: nothing an earlier connect
   did (other mode, other patterns, other handler class, a refused attempt) reaches a later one. *)
Theorem C06_history_independent : forall profiles p steps,
  snd (run_history profiles p steps) = map (fun st => snd (connect_step profiles p st)) steps.
Proof. exact c06_history_independent. Qed.
Print Assumptions C06_history_independent.

(* The k-th manager of any history carries the caller's profile list + his patterns and his mode, decides as the
   connect-style composition [call_outcome], and raises exactly when the property sentence says so. *)
Theorem C06_history_decision : forall profiles p steps k st m root,
  nth_error steps k = Some st ->
  by_hand_ok p st ->
  nth_error (snd (run_history profiles p steps)) k = Some (Connected m) ->
  exists ex, asked_profile profiles (arg p (s_dp st)) = Some ex /\
    mgr_outcome m root =
      call_outcome ex (Some (asked_user (arg p (s_ep st)))) (Some (asked_mode (arg p (s_ep st)))) root /\
    (Forall modelled_text (ex ++ asked_user (arg p (s_ep st))) ->
     raises (mgr_outcome m root) =
       should_raise (asked_mode (arg p (s_ep st))) (parse_errors root) (ex ++ asked_user (arg p (s_ep st)))).
Proof. exact c06_history_decision. Qed.
Print Assumptions C06_history_decision.

(* Two connects of one history that pass the same objects the same way end alike (same manager, or both refused). *)
Theorem C06_history_same_params : forall profiles p steps j k sj sk,
  nth_error steps j = Some sj -> nth_error steps k = Some sk ->
  s_route sj = s_route sk -> s_dp sj = s_dp sk -> s_mp sj = s_mp sk -> s_ep sj = s_ep sk ->
  s_timeout sj = s_timeout sk -> s_fail sj = s_fail sk ->
  nth_error (snd (run_history profiles p steps)) j = nth_error (snd (run_history profiles p steps)) k.
Proof. exact c06_history_same_params. Qed.
Print Assumptions C06_history_same_params.

(* ---------- non-vacuity ---------- *)
Definition B (s : string) : bytes := lit s.
Definition el (local : string) (text : option bytes) (kids : list node) : node :=
  Elem (B "{urn:ietf:params:xml:ns:netconf:base:1.0}" ++ B local) [] text [] kids.
Definition err_el (sev msg : string) : node :=
  el "rpc-error" None [el "error-severity" (Some (B "ignored")) []; el "error-severity" (Some (B sev)) [];
                       el "error-message" (Some (B msg)) []].
Definition ex_reply : node :=
  el "rpc-reply" None [el "data" None [err_el "warning" "  VLAN With The Same Name Exists "]; err_el "error" "boom"].

Example C06_ex_mirror :
  has_ok_child ex_reply = false /\
  map e_severity (parse_errors ex_reply) = [Some (B "warning"); Some (B "error")] /\
  map e_message (parse_errors ex_reply) = [Some (B "  VLAN With The Same Name Exists "); Some (B "boom")] /\
  reply_ok ex_reply = false.
Proof. vm_compute. repeat split; reflexivity. Qed.

Example C06_ex_decide :
  let errs := parse_errors ex_reply in
  decide MODE_ERRORS errs (classify []) = RaiseAggregate errs /\         (* F5: warning first, error second *)
  agg_severity errs = s_error /\
  agg_message errs = B "warning: VLAN With The Same Name Exists" ++ [NL] ++ B "error: boom" /\
  decide MODE_ALL errs (classify [B "*vlan with the SAME name exists*"]) = Return /\   (* exempt, case-insensitive *)
  decide MODE_NONE errs (classify []) = Return /\
  should_raise MODE_ERRORS errs [] = true /\ should_raise MODE_ALL errs [B "*"] = false.
Proof. vm_compute. repeat split; reflexivity. Qed.

Example C06_ex_warning_only :
  let errs := map mk_error [err_el "warning" "a"; err_el "warning" "b"] in
  decide MODE_ERRORS errs (classify []) = Return /\ decide MODE_ALL errs (classify []) = RaiseAggregate errs /\
  agg_severity errs = s_warning.                                         (* F4 *)
Proof. vm_compute. repeat split; reflexivity. Qed.

Ltac dom := unfold modelled_text; repeat (first [apply Forall_nil | apply Forall_cons | (vm_compute; reflexivity)]).
Example C06_ex_match :
  is_exempt [B "x*"; B "*Same Name*"] (Some (B "  VLAN with the same name EXISTS ")) /\
  ~ is_exempt [B "x*"; B "same name*"] (Some (B "VLAN with the same name exists")) /\
  Forall modelled_text [B "x*"; B "*Same Name*"].
Proof.
  split; [|split].
  - apply (proj1 (c06_match_spec [B "x*"; B "*Same Name*"] (Some (B "  VLAN with the same name EXISTS "))
                              ltac:(dom) ltac:(dom))). vm_compute. reflexivity.
  - intros H. apply (proj2 (c06_match_spec [B "x*"; B "same name*"] (Some (B "VLAN with the same name exists"))
                              ltac:(dom)
                              ltac:(dom))) in H. vm_compute in H. discriminate.
  - dom.
Qed.

(* a retry loop with a custom handler class, then a second device and a manager built by hand, all over the same
   dictionaries: object 1 = device_params {handler: class 7 with ["*already exists*"]}, 2 = manager_params {timeout: 5},
   3 = errors_params {raise_mode: ERRORS, ignore_errors: ["lock held*"]} *)
Definition ex_pool : pool :=
  [ (1, [(k_handler, PHandler 7 [B "*already exists*"]); (B "site", PStr (B "lab"))]);
    (2, [(k_timeout, PNum 5)]);
    (3, [(k_raise_mode, PNum MODE_ERRORS); (k_ignore_errors, PStrs [B "lock held*"])]) ].
Definition ex_steps : list step :=
  [ mkStep 1 (Some 1) (Some 2) None (Some 3) None true;      (* connect_ssh, refused *)
    mkStep 1 (Some 1) (Some 2) None (Some 3) None false;     (* the retry *)
    mkStep 2 (Some 1) (Some 2) None None (Some 9) false;     (* connect_tls, no errors_params: mode ALL *)
    mkStep 0 (Some 1) (Some 2) None None None false ].       (* by hand: Manager(s, dh, **manager_params) *)
Definition ex_profiles : list (bytes * list bytes) := [(k_default, [])].

Example C06_ex_history :
  run_history ex_profiles ex_pool ex_steps =
    (ex_pool, [ ConnectRaised;
                Connected (mkMgr [B "*already exists*"; B "lock held*"] MODE_ERRORS 5);
                Connected (mkMgr [B "*already exists*"] MODE_ALL 5);
                Connected (mkMgr [B "*already exists*"] MODE_ALL 5) ]) /\
  Forall (by_hand_ok ex_pool) ex_steps /\
  (let m := mkMgr [B "*already exists*"] MODE_ALL 5 in
   mgr_outcome m (el "rpc-reply" None [err_el "error" "VLAN 17: Object ALREADY exists"]) = Return /\
   raises (mgr_outcome m (el "rpc-reply" None [err_el "warning" "disk nearly full"])) = true).
Proof.
  split; [vm_compute; reflexivity|]. split.
  - repeat constructor; unfold by_hand_ok; vm_compute; intros; try reflexivity; discriminate.
  - vm_compute. split; reflexivity.
Qed.
