(* Props/C14_session.v — session clause of C14 on the session LTS (Model/SessionLTS.v): "a stream that breaks chunk
   framing ends the session with an error delivered to all pending requests rather than stalling it, and whenever the
   worker stops for any reason the session is marked disconnected and pending requests are failed"; "a reply without /
   with an unknown message-id is an error, not a delivery"; non-XML payloads never reach callers. The parser-level
   clauses are in Props/C14.v. *)
From NC Require Import Model.Base Model.SessionLTS Proofs.SessionLTSProofs.
From NC Require Import Model.SessionSoft Proofs.SessionSoftProofs.

Theorem C14_worker_stop : forall s, reach s -> pc s = WExited ->
  connected s = false /\
  (forall rid r, rq s rid = Some r -> In rid (wrote s) -> r_reply r = None -> r_error r <> None /\ r_ev r = true).
Proof. exact c14_worker_stop. Qed.
Print Assumptions C14_worker_stop.

Theorem C14_unknown_id : forall s id s',
  step s (LTGet id false) = Some s' ->
  tget id (table s) = None /\ pc s' = WRaise 2 /\ reqs s' = reqs s /\ deliver_log s' = deliver_log s.
Proof. exact c14_unknown_id. Qed.
Print Assumptions C14_unknown_id.

Theorem C14_missing_id : forall s arg s',
  lst s = true -> step s (LRecv 1 arg) = Some s' ->
  pc s' = WRaise 2 /\ reqs s' = reqs s /\ deliver_log s' = deliver_log s.
Proof. exact c14_missing_id. Qed.
Print Assumptions C14_missing_id.

Theorem C14_nonxml_dropped : forall s arg s', step s (LRecv 5 arg) = Some s' -> s' = s.
Proof. exact c14_nonxml_dropped. Qed.
Print Assumptions C14_nonxml_dropped.

Theorem C14_raise_only : forall s e l s',
  pc s = WRaise e -> step s l = Some s' ->
  pc s' = WRaise e \/ (l = LErrBcast (bcast_code (closing s) e) /\ pc s' = WErrSnap (bcast_code (closing s) e)).
Proof. exact c14_raise_only. Qed.
Print Assumptions C14_raise_only.

Theorem C14_failed_after_broadcast : forall s rid r e,
  reach s -> pc s = WErrDeliver e [] ->
  rq s rid = Some r -> In rid (wrote s) -> r_reply r = None -> r_error r <> None /\ r_ev r = true.
Proof. exact c04_all_failed_after_broadcast. Qed.
Print Assumptions C14_failed_after_broadcast.

(* Non-vacuity: chunk framing breaks with two requests pending (one written, one still queued): NetconfFramingError
   (code 6) reaches both, the worker closes and exits, the session is disconnected. *)
Example C14_ex_framing_break :
  match run (init true)
          [ LReg 0 100; LChk 0 true; LPut 0; LDeq 0; LReg 1 101; LChk 1 true; LPut 1; LRecv 5 0;
            LRaise 6; LErrBcast 6; LTValues [100; 101]; LTClear; LEvSetErr 0; LEvSetErr 1; LClose 0; LExit;
            LWaitRes 0 true; LWaitRes 1 true ] with
  | Some s => map r_st (reqs s) = [CDone (OExc 6); CDone (OExc 6)] /\ pc s = WExited /\ connected s = false
  | None => False
  end.
Proof. vm_compute. repeat split; reflexivity. Qed.

(* ====== histories "hostile message, then later requests" (Model/SessionSoft.v): the session LTS extended with the
   NON-FATAL error broadcast of Session._dispatch_message (a payload that is not XML and that the device profile
   answers with an exception: the outstanding requests get that error, the worker goes back into its loop) and with
   the <notification> whose body is not well-formed.  The statements above are about the base system; the ones below
   hold in every reachable state of the extended system, i.e. after any number of such messages. ====== *)

(* the extension is conservative *)
Theorem C14x_conservative : forall s, reach s -> xreach (inj s).
Proof. exact reach_xreach. Qed.
Print Assumptions C14x_conservative.

Theorem C14x_base_step : forall x l, sp x = SNone -> xstep x (XB l) = lift x (step (base x) l).
Proof. exact xstep_base. Qed.
Print Assumptions C14x_base_step.

(* a hostile message never becomes a reply, a notification or the end of the session: all its steps can do is store
   an error in a request and set its event *)
Theorem C14x_hostile_frame : forall x l x',
  xstep x l = Some x' -> hostile_step x l = true ->
  connected (base x') = connected (base x) /\ closing (base x') = closing (base x) /\ pc (base x') = pc (base x) /\
  outq (base x') = outq (base x) /\ nq (base x') = nq (base x) /\ wrote (base x') = wrote (base x) /\
  deliver_log (base x') = deliver_log (base x) /\ recv_notifs (base x') = recv_notifs (base x) /\
  taken (base x') = taken (base x) /\
  (forall rid r', rq (base x') rid = Some r' ->
     exists r, rq (base x) rid = Some r /\ r_id r' = r_id r /\ r_reply r' = r_reply r /\ r_st r' = r_st r).
Proof. exact c14x_hostile_frame. Qed.
Print Assumptions C14x_hostile_frame.

(* In every reachable state of the extended system, i.e. after any number of hostile messages:
   (1) a stored reply carries the request's own id;  (2) no request is delivered twice;
   (3) no request is ever lost: one without reply and without error is in the pending table, or in the snapshot a
       (fatal or non-fatal) broadcast is still failing - the error of a hostile message goes to the requests pending at
       that moment and to nobody else, now or later;
   (4) during a non-fatal broadcast, and when it is over, the worker is in its loop (idle), nothing was closed;
   (5) the snapshot of a non-fatal broadcast is the whole pending table;
   (6) whenever the worker has stopped: disconnected, not inside a non-fatal broadcast, every written and unanswered
       request failed. *)
Theorem C14x_reachable : forall x, xreach x ->
  (forall rid r i, rq (base x) rid = Some r -> r_reply r = Some i -> i = r_id r) /\
  NoDup (deliver_log (base x)) /\
  (forall rid r, rq (base x) rid = Some r -> r_reply r = None -> r_error r = None ->
     tget (r_id r) (table (base x)) = Some rid \/ In rid (pc_rids (pc (base x))) \/ In rid (sp_rids (sp x))) /\
  (sp x <> SNone -> pc (base x) = WIdle) /\
  (forall e rids id rid, sp x = SClear e rids -> tget id (table (base x)) = Some rid -> In rid rids) /\
  (pc (base x) = WExited ->
     connected (base x) = false /\ sp x = SNone /\
     (forall rid r, rq (base x) rid = Some r -> In rid (wrote (base x)) -> r_reply r = None -> r_error r <> None /\ r_ev r = true)).
Proof. exact c14x_reachable. Qed.
Print Assumptions C14x_reachable.

(* each entry of the snapshot gets the error, nothing else changes *)
Theorem C14x_soft_fail : forall x rid x',
  xstep x (XB (LEvSetErr rid)) = Some x' -> sp x <> SNone ->
  exists e rest, sp x = SDeliver e (rid :: rest) /\ sp x' = after_rids e rest /\
                 rq (base x') rid = option_map (set_error e) (rq (base x) rid) /\
                 (forall rid', rid' <> rid -> rq (base x') rid' = rq (base x) rid').
Proof. exact c14x_soft_fail. Qed.
Print Assumptions C14x_soft_fail.

(* later requests work normally: a request made during or after the broadcast is recorded ... *)
Theorem C14x_register : forall x rid id x',
  xstep x (XB (LReg rid id)) = Some x' ->
  tget id (table (base x')) = Some rid /\
  rq (base x') rid = Some {| r_id := id; r_st := CReg; r_reply := None; r_error := None; r_ev := false |} /\
  sp x' = sp x.
Proof. exact c14x_register. Qed.
Print Assumptions C14x_register.

(* ... and the valid reply the server sends for it is delivered to it (the delivery is enabled and stores exactly
   that request's reply), whatever hostile messages came before *)
Theorem C14x_later_served : forall x id rid,
  xreach x -> sp x = SNone -> pc (base x) = WIdle -> tget id (table (base x)) = Some rid ->
  exists x' r', xrun x [XB (LRecv 0 id); XB (LTGet id true); XB (LEvSetReply rid); XB (LTDel id)] = Some x' /\
    rq (base x') rid = Some r' /\ r_reply r' = Some id /\ r_ev r' = true /\ r_id r' = id /\
    pc (base x') = WIdle /\ sp x' = SNone /\ connected (base x') = connected (base x).
Proof. exact c14x_later_served. Qed.
Print Assumptions C14x_later_served.

(* a <notification> whose start tag is fine and whose body is not well-formed is never queued for take_notification:
   the worker leaves its loop with an exception, from where it can only fail everybody and stop (C14_raise_only) *)
Theorem C14x_bad_notif : forall x n x',
  xstep x (XRecvBadNotif n) = Some x' ->
  sp x = SNone /\ sp x' = SNone /\ pc (base x') = WRaise 3 /\ nq (base x') = nq (base x) /\
  recv_notifs (base x') = recv_notifs (base x) /\ taken (base x') = taken (base x) /\ reqs (base x') = reqs (base x).
Proof. exact c14x_bad_notif. Qed.
Print Assumptions C14x_bad_notif.

(* Non-vacuity: request 0 answered; request 1 outstanding when the hostile message arrives (the profile answers it
   with exception class 2): request 1 gets that error, nothing is closed; then request 2 is made, written, answered:
   it holds its own reply, the session is connected, the worker idle. *)
Example C14x_ex_hostile_then_later :
  match xrun (xinit false)
          [ XB (LReg 0 100); XB (LChk 0 true); XB (LPut 0); XB (LDeq 0); XB (LReg 1 101); XB (LChk 1 true); XB (LPut 1); XB (LDeq 1);
            XB (LRecv 0 100); XB (LTGet 100 true); XB (LEvSetReply 0); XB (LTDel 100); XB (LWaitRes 0 true);
            XRecvErr 2; XB (LErrBcast 2); XB (LTValues [101]); XB LTClear; XB (LEvSetErr 1);
            XB (LReg 2 102); XB (LChk 2 true); XB (LPut 2); XB (LDeq 2); XB (LWaitRes 1 true);
            XB (LRecv 0 102); XB (LTGet 102 true); XB (LEvSetReply 2); XB (LTDel 102); XB (LWaitRes 2 true) ] with
  | Some x => map r_st (reqs (base x)) = [CDone (OReply 100); CDone (OExc 2); CDone (OReply 102)] /\
              pc (base x) = WIdle /\ sp x = SNone /\ connected (base x) = true /\ softs x = [2] /\ table (base x) = []
  | None => False
  end.
Proof. vm_compute. repeat split; reflexivity. Qed.

(* ... a request registered while the errback still delivers the error is not touched by it *)
Example C14x_ex_register_during :
  match xrun (xinit false)
          [ XB (LReg 0 100); XB (LChk 0 true); XB (LPut 0); XB (LDeq 0);
            XRecvErr 2; XB (LErrBcast 2); XB (LTValues [100]); XB LTClear; XB (LReg 1 101); XB (LEvSetErr 0);
            XB (LChk 1 true); XB (LPut 1); XB (LDeq 1); XB (LRecv 0 101); XB (LTGet 101 true); XB (LEvSetReply 1); XB (LTDel 101) ] with
  | Some x => map r_error (reqs (base x)) = [Some 2; None] /\ map r_reply (reqs (base x)) = [None; Some 101] /\ connected (base x) = true
  | None => False
  end.
Proof. vm_compute. repeat split; reflexivity. Qed.

(* ... and a malformed notification ends the session with the error delivered to the pending request, nothing queued *)
Example C14x_ex_bad_notif :
  match xrun (xinit true)
          [ XB (LReg 0 100); XB (LChk 0 true); XB (LPut 0); XB (LDeq 0); XRecvBadNotif 52;
            XB (LErrBcast 3); XB (LTValues [100]); XB LTClear; XB (LEvSetErr 0); XB (LClose 0); XB LExit; XB (LWaitRes 0 true); XB (LTake false 0) ] with
  | Some x => map r_st (reqs (base x)) = [CDone (OExc 3)] /\ pc (base x) = WExited /\ connected (base x) = false /\ nq (base x) = [] /\ taken (base x) = []
  | None => False
  end.
Proof. vm_compute. repeat split; reflexivity. Qed.
