(* Props/C14_session.v — session clause of C14 on the session LTS (Model/SessionLTS.v): "a stream that breaks chunk
   framing ends the session with an error delivered to all pending requests rather than stalling it, and whenever the
   worker stops for any reason the session is marked disconnected and pending requests are failed"; "a reply without /
   with an unknown message-id is an error, not a delivery"; non-XML payloads never reach callers. The parser-level
   clauses are in Props/C14.v. *)
From NC Require Import Model.Base Model.SessionLTS Proofs.SessionLTSProofs.

Theorem C14_worker_stop : forall s, reach s -> pc s = WExited ->
  connected s = false /\
  (forall rid r, rq s rid = Some r -> In rid (wrote s) -> r_reply r = None -> r_error r <> None /\ r_ev r = true).
Proof. exact c14_worker_stop. Qed.
Print Assumptions C14_worker_stop.

Theorem C14_unknown_id : forall s id s',
  step s (LTGet id false) = Some s' ->
  tget id (table s) = None /\ pc s' = WRaise 2 /\ reqs s' = reqs s /\ deliver_log s' = deliver_log s.
Proof. exact c14_unknown_id. Qed.
Print Assumptions C14_unknown_id.

Theorem C14_missing_id : forall s arg s',
  lst s = true -> step s (LRecv 1 arg) = Some s' ->
  pc s' = WRaise 2 /\ reqs s' = reqs s /\ deliver_log s' = deliver_log s.
Proof. exact c14_missing_id. Qed.
Print Assumptions C14_missing_id.

Theorem C14_nonxml_dropped : forall s arg s', step s (LRecv 5 arg) = Some s' -> s' = s.
Proof. exact c14_nonxml_dropped. Qed.
Print Assumptions C14_nonxml_dropped.

Theorem C14_raise_only : forall s e l s',
  pc s = WRaise e -> step s l = Some s' ->
  pc s' = WRaise e \/ (l = LErrBcast (bcast_code (closing s) e) /\ pc s' = WErrSnap (bcast_code (closing s) e)).
Proof. exact c14_raise_only. Qed.
Print Assumptions C14_raise_only.

Theorem C14_failed_after_broadcast : forall s rid r e,
  reach s -> pc s = WErrDeliver e [] ->
  rq s rid = Some r -> In rid (wrote s) -> r_reply r = None -> r_error r <> None /\ r_ev r = true.
Proof. exact c04_all_failed_after_broadcast. Qed.
Print Assumptions C14_failed_after_broadcast.

(* Non-vacuity: chunk framing breaks with two requests pending (one written, one still queued): NetconfFramingError
   (code 6) reaches both, the worker closes and exits, the session is disconnected. *)
Example C14_ex_framing_break :
  match run (init true)
          [ LReg 0 100; LChk 0 true; LPut 0; LDeq 0; LReg 1 101; LChk 1 true; LPut 1; LRecv 5 0;
            LRaise 6; LErrBcast 6; LTValues [100; 101]; LTClear; LEvSetErr 0; LEvSetErr 1; LClose 0; LExit;
            LWaitRes 0 true; LWaitRes 1 true ] with
  | Some s => map r_st (reqs s) = [CDone (OExc 6); CDone (OExc 6)] /\ pc s = WExited /\ connected s = false
  | None => False
  end.
Proof. vm_compute. repeat split; reflexivity. Qed.
