(* Props/C14.v — property C14 (parser level): malformed or hostile input cannot corrupt or wedge
   the inbound framing.  Only statements, closed by [exact], each followed by Print Assumptions.
   Models and spec as in Props/C01.v; all statements are about ARBITRARY octet streams. *)
From NC Require Import Model.Base Model.Utf8 Model.Framing10 Model.Framing11 Spec.RefFraming.
From NC Require Import Proofs.ListFacts Proofs.Utf8Facts Proofs.Framing10Proofs Proofs.Framing11Proofs Proofs.FramingProofs.

(* Whatever the octets and however they are cut into reads, the delivered sequence is exactly the
   reference automaton's: payloads of correctly framed messages, in stream order — none invented,
   merged, duplicated or reordered. *)
Theorem C14_only_framed : forall segs : list bytes,
  deliveries (events feed10 init10 segs) = deliveries (snd (ref10 rinit10 (concat segs))) /\
  deliveries (events feed11 init11 segs) = deliveries (snd (ref11 rinit11 (concat segs))).
Proof. intros segs. split; [apply c14_only_framed10 | apply c14_only_framed11]. Qed.
Print Assumptions C14_only_framed.

(* No stall: as soon as the octets fed so far cannot be continued to a valid chunk stream (the
   reference automaton is dead after them), the parser has raised, whatever the cut into reads
   (apply it to the reads fed so far). *)
Theorem C14_no_stall11 : forall segs : list bytes,
  dead_r11 (fst (ref11 rinit11 (concat segs))) = true ->
  dead11 (fst (feed_all feed11 init11 segs)) = true /\ raised (events feed11 init11 segs) = true.
Proof. exact c14_no_stall11. Qed.
Print Assumptions C14_no_stall11.

(* ... and after an exception nothing is ever delivered (Session.run has left its loop). *)
Theorem C14_dead_silent : forall st10 st11 seg,
  (dead10 st10 = true -> feed10 st10 seg = (st10, [])) /\ (dead11 st11 = true -> feed11 st11 seg = (st11, [])).
Proof. intros. split; [apply dead10_absorbing | apply dead11_absorbing]. Qed.
Print Assumptions C14_dead_silent.

(* Undecodable payloads never reach the dispatcher: every delivered message is the decoding of
   valid UTF-8 (1.0: its strip) ... *)
Theorem C14_undecodable : forall (segs : list bytes) (m : bytes),
  (In (Deliver m) (events feed10 init10 segs) -> exists t, utf8_valid t = true /\ m = strip t) /\
  (In (Deliver m) (events feed11 init11 segs) -> utf8_valid m = true).
Proof. intros segs m. split; [apply c14_undecodable10 | apply c14_undecodable11]. Qed.
Print Assumptions C14_undecodable.

(* ... and a correctly framed message that is not valid UTF-8 yields, after the deliveries of the
   messages before it, a Raise and nothing else — whatever follows it, however the stream is cut. *)
Theorem C14_undecodable_frame :
  (forall (msgs : list bytes) (m rest : bytes) (segs : list bytes),
     Forall clean10 msgs -> Forall (fun m => utf8_valid m = true) msgs ->
     clean10 m -> utf8_valid m = false ->
     concat segs = enc10 msgs ++ m ++ delim10 ++ rest ->
     events feed10 init10 segs = map (fun m => Deliver (strip m)) msgs ++ [Raise K_UNICODE]) /\
  (forall (css : list (list bytes)) (cs : list bytes) (rest : bytes) (segs : list bytes),
     Forall (Forall (fun c => c <> [])) css -> Forall (fun cs => utf8_valid (concat cs) = true) css ->
     Forall (fun c => c <> []) cs -> utf8_valid (concat cs) = false ->
     concat segs = enc11 css ++ enc_msg11 cs ++ rest ->
     events feed11 init11 segs = map (fun cs => Deliver (concat cs)) css ++ [Raise K_UNICODE]).
Proof. split; [exact c14_undecodable_frame10 | exact c14_undecodable_frame11]. Qed.
Print Assumptions C14_undecodable_frame.

(* ---- non-vacuity ---- *)
(* F3: b'garbage\n#3\nabc\n##\n' — the reference is dead after the first octet; the model raises
   NetconfFramingError in the first read, whatever its size, and delivers nothing. *)
Definition ex_garbage : bytes :=
  [103; 97; 114; 98; 97; 103; 101; 10; 35; 51; 10; 97; 98; 99; 10; 35; 35; 10].
Example C14_ex_no_stall :
  dead_r11 (fst (ref11 rinit11 [103])) = true /\
  snd (feed_all feed11 init11 [[103]; skipn 1 ex_garbage]) = [[Raise K_FRAMING]; []] /\
  events feed11 init11 [ex_garbage] = [Raise K_FRAMING].
Proof. vm_compute. repeat split; reflexivity. Qed.

(* F3b: b'\n#\xff4\nabcd\n##\n' — an invalid octet inside the header is a framing error, not skipped *)
Example C14_ex_f3b :
  events feed11 init11 [[10; 35; 255; 52; 10; 97; 98; 99; 100; 10; 35; 35; 10]] = [Raise K_FRAMING].
Proof. vm_compute. reflexivity. Qed.

(* an undecodable frame after a good one, both versions, cut inside the bad character *)
Example C14_ex_undecodable :
  events feed11 init11 [enc11 [[[97]]] ++ firstn 5 (enc_msg11 [[195]; [40]]); skipn 5 (enc_msg11 [[195]; [40]]) ++ [10; 35]]
    = [Deliver [97]; Raise K_UNICODE] /\
  events feed10 init10 [[97] ++ delim10 ++ [195]; [40] ++ delim10 ++ [98] ++ delim10] = [Deliver [97]; Raise K_UNICODE] /\
  clean10 [195; 40] /\ utf8_valid [195; 40] = false.
Proof.
  repeat split; try (vm_compute; reflexivity). unfold clean10; apply find_none; vm_compute; reflexivity.
Qed.

(* a truncated stream delivers what is complete and waits (no event, not dead) *)
Example C14_ex_truncated :
  feed_all feed11 init11 [[10; 35; 50; 10; 97; 98; 10; 35; 35; 10; 10; 35; 53; 10; 97]] =
  ({| buf11 := [10; 35; 53; 10; 97]; frags11 := []; dead11 := false |}, [[Deliver [97; 98]]]).
Proof. vm_compute. reflexivity. Qed.
