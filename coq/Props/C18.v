(* Props/C18.v — property C18 (partial): Junos streaming-filter (SAX) handler. *)
From Coq Require Import String.
From NC Require Import Model.Base Model.Lit Model.SaxFilter Spec.Projection Proofs.SaxProofs.

Theorem C18_nofilter_switch_step : forall e s top a id,
  is_reply top = true -> dict_get s_msgid a = Some id -> has_listener e = true ->
  dict_get id (table e) = Some None ->
  step e s (Start top a) = Raise ESwitch [].
Proof. exact c18_nofilter_switch_step. Qed.
Print Assumptions C18_nofilter_switch_step.
