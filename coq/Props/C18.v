(* Props/C18.v — property C18 (partial): the Junos streaming-filter (SAX) handler.
   Model: Model/SaxFilter.v (ncclient/transport/third_party/junos/parser.py, class SAXParser, as repaired by the
   fix: commits of this property).  Spec: Spec/Projection.v.
   Partial: the theorems are about the handler driven by SAX events.  expat (bytes -> events), lxml, the byte-level
   split at the end-of-message delimiter (JunosXMLParser.parse) and the hand-over to DefaultXMLParser are tied to the
   model and to the property by the correspondence and the whole-path oracle only (tools/props/c18.py). *)
From Coq Require Import String.
From NC Require Import Model.Base Model.Lit Model.SaxFilter Spec.Projection Proofs.SaxProofs.

(* Whatever the environment and the handler state: two event streams that are re-segmentations of each other
   (same canonical form: adjacent character events merged, empty ones dropped) leave the same bytes in the buffer
   and end the same way (same final handler state or same exception). *)
Theorem C18_chars_split : forall e s evs1 evs2,
  canon evs1 = canon evs2 -> runb e s evs1 = runb e s evs2.
Proof. exact c18_chars_split. Qed.
Print Assumptions C18_chars_split.

(* the elementary form: splitting one character event anywhere in any stream *)
Theorem C18_chars_split_at : forall e s pre a b post,
  runb e s (pre ++ Chars (a ++ b) :: post) = runb e s (pre ++ Chars a :: Chars b :: post).
Proof. exact c18_chars_split_at. Qed.
Print Assumptions C18_chars_split_at.

(* For replies in the class wf_reply (Spec/Projection.v: reply tag rpc-reply / nc:rpc-reply whose request carries
   filter f; the first child element of the reply is the filter root; on the filter's paths no child element is named
   like its parent's filter node, the filter root or a reply tag, is unprefixed, and text follows a child element only
   if blank; inside a skipped element no element is named like the skipped element, the enclosing kept element, the
   filter root or a reply tag) the handler runs to the end and what it wrote, read as events, is the event stream
   of [project f doc] up to blank character events.
   _partial: outside the class the statement is false of the code (open findings sax_element_name_clash,
   sax_mixed_content_text_dropped, sax_prefixed_element_named_by_filter; see C18_name_clash_outside_class below);
   the one-level wrapper (first child is not the filter root) is covered by the correspondence only. *)
Theorem C18_projection_partial : forall e f doc, wf_reply e f doc ->
  exists o s', exec e init (ev doc) = (o, Fin s') /\
               drop_blank (oes o) = drop_blank (ev (project f doc)).
Proof. exact c18_projection_partial. Qed.
Print Assumptions C18_projection_partial.

(* A reply to a request without filter raises the switch signal at the reply's start tag, in every handler state
   (also while skipping), before anything of that reply is written. *)
Theorem C18_nofilter_switch : forall e s top a id,
  is_reply top = true -> dict_get s_msgid a = Some id -> has_listener e = true ->
  dict_get id (table e) = Some None ->
  step e s (Start top a) = Raise ESwitch [].
Proof. exact c18_nofilter_switch_step. Qed.
Print Assumptions C18_nofilter_switch.

Theorem C18_nofilter_switch_doc : forall e top a ks id,
  is_reply top = true -> dict_get s_msgid a = Some id -> has_listener e = true ->
  dict_get id (table e) = Some None ->
  runb e init (ev (E top a ks)) = ([], Raised ESwitch).
Proof. exact c18_nofilter_switch_doc. Qed.
Print Assumptions C18_nofilter_switch_doc.

(* ---------------- non-vacuity ---------------- *)
Definition L (s : string) : bytes := lit s.
Definition ex_f : ftree := FN (L "r") [FN (L "a") []; FN (L "c") [FN (L "d") []]].
Definition ex_env : env := mkenv true [(L "m1", Some ex_f); (L "m2", None)].
Definition ex_doc : xt :=
  E (L "rpc-reply") [(L "message-id", L "m1"); (L "xmlns:junos", L "u")]
    [ T (L " ");
      E (L "r") [(L "id", L "1<2")]
        [ T (L " ");
          E (L "a") [] [T (L "x&"); T (L "y")];
          T (L " ");
          E (L "b") [] [T (L "dropped"); E (L "a") [] [T (L "also dropped")]];
          E (L "c") [] [E (L "d") [] [T (L "kept")]; E (L "e") [] []] ];
      E (L "cli") [] [E (L "banner") [] []] ].

Example C18_ex_in_class : wf_reply ex_env ex_f ex_doc.
Proof.
  constructor.
  - exists (L "rpc-reply"), [(L "message-id", L "m1"); (L "xmlns:junos", L "u")].
    eexists. exists (L "m1"). repeat split.
    apply WFtop_T; [reflexivity|].
    apply (WFtop_root _ ex_f).
    + apply WFks_T; [discriminate|].
      eapply WFks_kept; [repeat split | reflexivity | constructor; repeat constructor; discriminate |].
      apply WFks_T; [reflexivity|].
      eapply WFks_skipped; [repeat split | reflexivity | repeat constructor |].
      eapply WFks_kept; [repeat split | reflexivity | | constructor].
      constructor.
      eapply WFks_kept; [repeat split | reflexivity | constructor; repeat constructor; discriminate |].
      eapply WFks_skipped; [repeat split | reflexivity | constructor | constructor].
    + eapply WFtop_other; [repeat split | reflexivity | repeat constructor | constructor].
  - reflexivity.
  - split; reflexivity.
Qed.

(* ... and on it the handler writes exactly this (b, its nested a, e and cli are gone; text escaped): *)
Example C18_ex_output :
  runb ex_env init (ev ex_doc) =
  (L "<rpc-reply message-id=""m1"" xmlns:junos=""u""><r id=""1&lt;2""> <a>x&amp;y</a>
<c><d>kept</d>
</c>
</r>
</rpc-reply>
", Fin (mkst [ex_f] (Some (L "r")) 1 false None [L "rpc-reply"; L "r"] false false)).
Proof. vm_compute. reflexivity. Qed.

Example C18_ex_projection :
  project ex_f ex_doc =
  E (L "rpc-reply") [(L "message-id", L "m1"); (L "xmlns:junos", L "u")]
    [ T (L " ");
      E (L "r") [(L "id", L "1<2")]
        [ T (L " "); E (L "a") [] [T (L "x&"); T (L "y")]; T (L " ");
          E (L "c") [] [E (L "d") [] [T (L "kept")]] ] ].
Proof. vm_compute. reflexivity. Qed.

(* re-segmentation: three ways to cut "x&y" (one with an empty piece) have the same canonical form, and the
   handler really writes the text *)
Example C18_ex_split :
  let s := mkst [ex_f] (Some (L "r")) 1 true None [] false false in
  canon [Chars (L "x&y"); End (L "r")] = canon [Chars (L "x"); Chars []; Chars (L "&y"); End (L "r")] /\
  runb ex_env s [Chars (L "x"); Chars []; Chars (L "&y"); End (L "r")] = (L "x&amp;y</r>
", Fin (mkst [] (Some (L "r")) 1 false None [] false false)).
Proof. vm_compute. split; reflexivity. Qed.

(* switch: the same document answered to request m2 (no filter) *)
Example C18_ex_switch :
  runb ex_env init (ev (E (L "nc:rpc-reply") [(L "message-id", L "m2")] [E (L "r") [] []])) = ([], Raised ESwitch).
Proof. vm_compute. reflexivity. Qed.

(* The class restriction is needed (open finding sax_element_name_clash, exhibited by the model): an element x nested
   in a skipped element x ends the skipping, so the a that follows is written although r/x/a is not on the filter's
   paths. *)
Example C18_name_clash_outside_class :
  let doc := E (L "rpc-reply") [(L "message-id", L "m1")]
               [E (L "r") [] [E (L "x") [] [E (L "x") [] []; E (L "a") [] [T (L "leak")]]]] in
  exists o s', exec ex_env init (ev doc) = (o, Fin s') /\
               drop_blank (oes o) <> drop_blank (ev (project ex_f doc)).
Proof. eexists. eexists. split; [vm_compute; reflexivity | vm_compute; discriminate]. Qed.
