(* Props/C18.v — property C18 (partial): the Junos streaming-filter (SAX) mode.
   Models: Model/SaxFilter.v (ncclient/transport/third_party/junos/parser.py, class SAXParser, as repaired by the
   fix: commits of this property; spec Spec/Projection.v, Spec/ProjectionW.v) and Model/JunosParse.v (the byte-level
   driver JunosXMLParser.parse with the hand-over to DefaultXMLParser and back; expat + handler abstracted as a machine
   stepped octet by octet, instance Model/JunosSax.v).
   Partial: expat (bytes -> events) and lxml are oracles; the projection theorems cover classes of replies; the recovery
   heuristics of _delimiter_check (input expat rejects) are outside the driver model (explicit Stuck state). *)
From Coq Require Import String.
From NC Require Import Model.JunosParse Model.JunosSax Proofs.JunosParseProofs Proofs.JunosSaxProofs.
From NC Require Import Model.Base Model.Lit Model.SaxFilter Spec.Projection Proofs.SaxProofs.
From NC Require Import Spec.ProjectionW Proofs.SaxWrapperProofs.
From NC Require Import Model.Utf8 Model.Framing11 Spec.RefFraming Model.JunosParse11 Proofs.JunosParse11Proofs.
From NC Require Import Model.JunosProcess Proofs.JunosProcessProofs.

(* Whatever the environment and the handler state: two event streams that are re-segmentations of each other
   (same canonical form: adjacent character events merged, empty ones dropped) leave the same bytes in the buffer
   and end the same way (same final handler state or same exception). *)
Theorem C18_chars_split : forall e s evs1 evs2,
  canon evs1 = canon evs2 -> runb e s evs1 = runb e s evs2.
Proof. exact c18_chars_split. Qed.
Print Assumptions C18_chars_split.

(* the elementary form: splitting one character event anywhere in any stream *)
Theorem C18_chars_split_at : forall e s pre a b post,
  runb e s (pre ++ Chars (a ++ b) :: post) = runb e s (pre ++ Chars a :: Chars b :: post).
Proof. exact c18_chars_split_at. Qed.
Print Assumptions C18_chars_split_at.

(* For replies in the class wf_reply (Spec/Projection.v: reply tag rpc-reply / nc:rpc-reply whose request carries
   filter f; the first child element of the reply is the filter root; on the filter's paths no child element is named
   like its parent's filter node, the filter root or a reply tag, is unprefixed, and text follows a child element only
   if blank; inside a skipped element no element is named like the skipped element, the enclosing kept element, the
   filter root or a reply tag) the handler runs to the end and what it wrote, read as events, is the event stream
   of [project f doc] up to blank character events.
   _partial: outside the class the statement is false of the code (open findings sax_element_name_clash,
   sax_mixed_content_text_dropped, sax_prefixed_element_named_by_filter; see C18_name_clash_outside_class below);
   the one-level wrapper (first child is not the filter root) is C18_projection_wrapper below. *)
Theorem C18_projection_partial : forall e f doc, wf_reply e f doc ->
  exists o s', exec e init (ev doc) = (o, Fin s') /\
               drop_blank (oes o) = drop_blank (ev (project f doc)).
Proof. exact c18_projection_partial. Qed.
Print Assumptions C18_projection_partial.

(* A reply to a request without filter raises the switch signal at the reply's start tag, in every handler state
   (also while skipping), before anything of that reply is written. *)
Theorem C18_nofilter_switch : forall e s top a id,
  is_reply top = true -> dict_get s_msgid a = Some id -> has_listener e = true ->
  dict_get id (table e) = Some None ->
  step e s (Start top a) = Raise ESwitch [].
Proof. exact c18_nofilter_switch_step. Qed.
Print Assumptions C18_nofilter_switch.

Theorem C18_nofilter_switch_doc : forall e top a ks id,
  is_reply top = true -> dict_get s_msgid a = Some id -> has_listener e = true ->
  dict_get id (table e) = Some None ->
  runb e init (ev (E top a ks)) = ([], Raised ESwitch).
Proof. exact c18_nofilter_switch_doc. Qed.
Print Assumptions C18_nofilter_switch_doc.

(* ---------------- non-vacuity ---------------- *)
Definition L (s : string) : bytes := lit s.
Definition ex_f : ftree := FN (L "r") [FN (L "a") []; FN (L "c") [FN (L "d") []]].
Definition ex_env : env := mkenv true [(L "m1", Some ex_f); (L "m2", None)].
Definition ex_doc : xt :=
  E (L "rpc-reply") [(L "message-id", L "m1"); (L "xmlns:junos", L "u")]
    [ T (L " ");
      E (L "r") [(L "id", L "1<2")]
        [ T (L " ");
          E (L "a") [] [T (L "x&"); T (L "y")];
          T (L " ");
          E (L "b") [] [T (L "dropped"); E (L "a") [] [T (L "also dropped")]];
          E (L "c") [] [E (L "d") [] [T (L "kept")]; E (L "e") [] []] ];
      E (L "cli") [] [E (L "banner") [] []] ].

Example C18_ex_in_class : wf_reply ex_env ex_f ex_doc.
Proof.
  constructor.
  - exists (L "rpc-reply"), [(L "message-id", L "m1"); (L "xmlns:junos", L "u")].
    eexists. exists (L "m1"). repeat split.
    apply WFtop_T; [reflexivity|].
    apply (WFtop_root _ ex_f).
    + apply WFks_T; [discriminate|].
      eapply WFks_kept; [repeat split | reflexivity | constructor; repeat constructor; discriminate |].
      apply WFks_T; [reflexivity|].
      eapply WFks_skipped; [repeat split | reflexivity | repeat constructor |].
      eapply WFks_kept; [repeat split | reflexivity | | constructor].
      constructor.
      eapply WFks_kept; [repeat split | reflexivity | constructor; repeat constructor; discriminate |].
      eapply WFks_skipped; [repeat split | reflexivity | constructor | constructor].
    + eapply WFtop_other; [repeat split | reflexivity | repeat constructor | constructor].
  - reflexivity.
  - split; reflexivity.
Qed.

(* ... and on it the handler writes exactly this (b, its nested a, e and cli are gone; text escaped): *)
Example C18_ex_output :
  runb ex_env init (ev ex_doc) =
  (L "<rpc-reply message-id=""m1"" xmlns:junos=""u""><r id=""1&lt;2""> <a>x&amp;y</a>
<c><d>kept</d>
</c>
</r>
</rpc-reply>
", Fin (mkst [ex_f] (Some (L "r")) 1 false None [L "rpc-reply"; L "r"] false false)).
Proof. vm_compute. reflexivity. Qed.

Example C18_ex_projection :
  project ex_f ex_doc =
  E (L "rpc-reply") [(L "message-id", L "m1"); (L "xmlns:junos", L "u")]
    [ T (L " ");
      E (L "r") [(L "id", L "1<2")]
        [ T (L " "); E (L "a") [] [T (L "x&"); T (L "y")]; T (L " ");
          E (L "c") [] [E (L "d") [] [T (L "kept")]] ] ].
Proof. vm_compute. reflexivity. Qed.

(* re-segmentation: three ways to cut "x&y" (one with an empty piece) have the same canonical form, and the
   handler really writes the text *)
Example C18_ex_split :
  let s := mkst [ex_f] (Some (L "r")) 1 true None [] false false in
  canon [Chars (L "x&y"); End (L "r")] = canon [Chars (L "x"); Chars []; Chars (L "&y"); End (L "r")] /\
  runb ex_env s [Chars (L "x"); Chars []; Chars (L "&y"); End (L "r")] = (L "x&amp;y</r>
", Fin (mkst [] (Some (L "r")) 1 false None [] false false)).
Proof. vm_compute. split; reflexivity. Qed.

(* switch: the same document answered to request m2 (no filter) *)
Example C18_ex_switch :
  runb ex_env init (ev (E (L "nc:rpc-reply") [(L "message-id", L "m2")] [E (L "r") [] []])) = ([], Raised ESwitch).
Proof. vm_compute. reflexivity. Qed.

(* The class restriction is needed (open finding sax_element_name_clash, exhibited by the model): an element x nested
   in a skipped element x ends the skipping, so the a that follows is written although r/x/a is not on the filter's
   paths. *)
Example C18_name_clash_outside_class :
  let doc := E (L "rpc-reply") [(L "message-id", L "m1")]
               [E (L "r") [] [E (L "x") [] [E (L "x") [] []; E (L "a") [] [T (L "leak")]]]] in
  exists o s', exec ex_env init (ev doc) = (o, Fin s') /\
               drop_blank (oes o) <> drop_blank (ev (project ex_f doc)).
Proof. eexists. eexists. split; [vm_compute; reflexivity | vm_compute; discriminate]. Qed.

(* ---------------- the one-level wrapper ---------------- *)
(* For replies in the class wf_reply_w (Spec/ProjectionW.v: reply tag rpc-reply / nc:rpc-reply whose request carries
   filter f; before the first child element of the reply only blank text; that first child element w, the wrapper, is
   unprefixed, is not named like the filter root and is not a reply tag; the children of w, and likewise the siblings
   after w, are blank text, elements named like the filter root (unprefixed) whose content is in the class WFks of
   C18_projection_partial for the default tags [reply tag; w], and other elements, which are unprefixed, not named like
   w, the reply or a reply tag and contain no element named like themselves, w, the reply or a reply tag)
   the handler runs to the end and what it wrote, read as events, is the event stream of [project_w f doc] up to blank
   character events: the reply with its attributes, the wrapper WITHOUT its attributes, in it the projections along f
   of its children named like the filter root, after it the projections along f of the siblings named like the
   filter root; everything else dropped. *)
Theorem C18_projection_wrapper : forall e f doc, wf_reply_w e f doc ->
  exists o s', exec e init (ev doc) = (o, Fin s') /\
               drop_blank (oes o) = drop_blank (ev (project_w f doc)).
Proof. exact c18_projection_wrapper. Qed.
Print Assumptions C18_projection_wrapper.

(* non-vacuity of the wrapper class *)
Definition exw_doc : xt :=
  E (L "rpc-reply") [(L "message-id", L "m1")]
    [ T (L " ");
      E (L "data") [(L "x", L "1")]
        [ T (L " ");
          E (L "r") [(L "id", L "1")] [E (L "a") [] [T (L "t")]; E (L "b") [] [T (L "dropped")]];
          E (L "other") [] [E (L "r") [] [E (L "a") [] [T (L "no")]]];
          T (L " ");
          E (L "r") [] [E (L "c") [] [E (L "d") [] [T (L "k")]]] ];
      T (L " ");
      E (L "z") [] [T (L "zz")];
      E (L "r") [] [E (L "a") [] [T (L "after")]] ].

Example C18_exw_in_class : wf_reply_w ex_env ex_f exw_doc.
Proof.
  constructor.
  - exists (L "rpc-reply"), [(L "message-id", L "m1")]. eexists. exists (L "m1"). repeat split.
    apply WFwtop_T; [reflexivity|].
    apply WFwtop_wrap; [reflexivity | reflexivity | reflexivity | |].
    + apply WFwk_T; [reflexivity|].
      apply (WFwk_root _ _ ex_f); [reflexivity | |].
      { eapply WFks_kept; [repeat split | reflexivity | constructor; repeat constructor; discriminate |].
        eapply WFks_skipped; [repeat split | reflexivity | repeat constructor | constructor]. }
      apply WFwk_other; [repeat split | reflexivity | repeat constructor |].
      apply WFwk_T; [reflexivity|].
      apply (WFwk_root _ _ ex_f); [reflexivity | | constructor].
      eapply WFks_kept; [repeat split | reflexivity | | constructor].
      constructor.
      eapply WFks_kept; [repeat split | reflexivity | constructor; repeat constructor; discriminate | constructor].
    + apply WFwk_T; [reflexivity|].
      apply WFwk_other; [repeat split | reflexivity | repeat constructor |].
      apply (WFwk_root _ _ ex_f); [reflexivity | | constructor].
      eapply WFks_kept; [repeat split | reflexivity | constructor; repeat constructor; discriminate | constructor].
  - reflexivity.
  - split; reflexivity.
Qed.

(* ... on it the handler writes exactly this (the wrapper's attribute x, b, other and z are gone) *)
Example C18_exw_output :
  runb ex_env init (ev exw_doc) =
  (L "<rpc-reply message-id=""m1""><data>
<r id=""1""><a>t</a>
</r>
<r><c><d>k</d>
</c>
</r>
</data>
<r><a>after</a>
</r>
</rpc-reply>
", Fin (mkst [FN (L "data") [ex_f]] (Some (L "r")) 2 false None [L "rpc-reply"; L "data"] false false)).
Proof. vm_compute. reflexivity. Qed.

Example C18_exw_projection :
  project_w ex_f exw_doc =
  E (L "rpc-reply") [(L "message-id", L "m1")]
    [ T (L " ");
      E (L "data") []
        [ T (L " ");
          E (L "r") [(L "id", L "1")] [E (L "a") [] [T (L "t")]];
          T (L " ");
          E (L "r") [] [E (L "c") [] [E (L "d") [] [T (L "k")]]] ];
      T (L " ");
      E (L "r") [] [E (L "a") [] [T (L "after")]] ].
Proof. vm_compute. reflexivity. Qed.

(* ---------------- "has a filter" does not depend on the filter's shape (round 4) ---------------- *)
(* A reply to a request WITH a filter never raises the switch signal, whatever the filter looks like (any [ftree],
   in particular a single leaf [FN n []] -- as an lxml element such a filter is falsy) and whatever the handler state.
   Together with C18_nofilter_switch: the switch is decided by "the request carries a filter" alone. *)
Theorem C18_filter_no_switch : forall e s top a id f o,
  is_reply top = true -> dict_get s_msgid a = Some id -> has_listener e = true ->
  dict_get id (table e) = Some (Some f) ->
  step e s (Start top a) <> Raise ESwitch o.
Proof. exact c18_filter_no_switch. Qed.
Print Assumptions C18_filter_no_switch.

(* a single-leaf filter selecting one leaf below the reply's first element (which then is the one-level wrapper) *)
Definition exl_f : ftree := FN (L "name") [].
Definition exl_env : env := mkenv true [(L "m1", Some exl_f); (L "m2", None)].
Definition exl_doc : xt :=
  E (L "rpc-reply") [(L "message-id", L "m1")]
    [ E (L "system-information") []
        [ E (L "name") [(L "unit", L "0")] [T (L "re0")];
          E (L "model") [] [T (L "mx960")] ] ].

Example C18_ex_leaf_filter_in_class : wf_reply_w exl_env exl_f exl_doc.
Proof.
  constructor.
  - exists (L "rpc-reply"), [(L "message-id", L "m1")]. eexists. exists (L "m1"). repeat split.
    apply WFwtop_wrap; [reflexivity | reflexivity | reflexivity | |].
    + apply (WFwk_root _ _ exl_f); [reflexivity | |].
      { apply WFks_T; [discriminate|]. constructor. }
      apply WFwk_other; [repeat split | reflexivity | repeat constructor | constructor].
    + constructor.
  - reflexivity.
  - split; reflexivity.
Qed.

Example C18_ex_leaf_filter_output :
  runb exl_env init (ev exl_doc) =
  (L "<rpc-reply message-id=""m1""><system-information>
<name unit=""0"">re0</name>
</system-information>
</rpc-reply>
", Fin (mkst [FN (L "system-information") [exl_f]] (Some (L "name")) 2 false None
             [L "rpc-reply"; L "system-information"] false false)) /\
  project_w exl_f exl_doc =
  E (L "rpc-reply") [(L "message-id", L "m1")]
    [ E (L "system-information") [] [ E (L "name") [(L "unit", L "0")] [T (L "re0")] ] ].
Proof. vm_compute. split; reflexivity. Qed.

(* ---------------- the class restrictions are needed (exhibited by the model) ---------------- *)
(* text directly in the wrapper is not written (the wrapper's start does not set _currenttag), although the wrapper
   is kept: with non-blank text there the statement is false *)
Example C18_wrapper_text_outside_class :
  let doc := E (L "rpc-reply") [(L "message-id", L "m1")] [E (L "data") [] [T (L "txt"); E (L "r") [] []]] in
  exists o s', exec ex_env init (ev doc) = (o, Fin s') /\
               drop_blank (oes o) <> drop_blank (ev (project_w ex_f doc)).
Proof. eexists. eexists. split; [vm_compute; reflexivity | vm_compute; discriminate]. Qed.

(* an element named like the wrapper, inside the wrapper or after it (here: a second wrapper), is skipped but its end
   tag is written (the wrapper's name is a default tag): the output has two </data> for one <data> *)
Example C18_wrapper_name_clash_outside_class :
  let doc := E (L "rpc-reply") [(L "message-id", L "m1")]
               [E (L "data") [] [E (L "r") [] []]; E (L "data") [] [E (L "r") [] []]] in
  exists s', exec ex_env init (ev doc) =
             ([OStart (L "rpc-reply") [(L "message-id", L "m1")]; OBare (L "data"); OStart (L "r") []; OEnd (L "r");
               OEnd (L "data"); OEnd (L "data"); OEnd (L "rpc-reply")], Fin s').
Proof. eexists. vm_compute. reflexivity. Qed.

(* the same inside a kept element: <r><data/><a>x</a></r> under the wrapper data writes a stray </data> *)
Example C18_wrapper_name_in_kept_outside_class :
  let doc := E (L "rpc-reply") [(L "message-id", L "m1")]
               [E (L "data") [] [E (L "r") [] [E (L "data") [] []; E (L "a") [] [T (L "x")]]]] in
  exists o s', exec ex_env init (ev doc) = (o, Fin s') /\
               drop_blank (oes o) <> drop_blank (ev (project_w ex_f doc)).
Proof. eexists. eexists. split; [vm_compute; reflexivity | vm_compute; discriminate]. Qed.

(* a prefixed wrapper raises ValueError after its start tag has been written *)
Example C18_wrapper_prefixed_outside_class :
  exec ex_env init (ev (E (L "rpc-reply") [(L "message-id", L "m1")] [E (L "nc:data") [] [E (L "r") [] []]])) =
  ([OStart (L "rpc-reply") [(L "message-id", L "m1")]; OBare (L "nc:data")], Raised EValue).
Proof. vm_compute. reflexivity. Qed.

(* ---------------- the byte-level driver: JunosXMLParser.parse over reads (Model/JunosParse.v) ---------------- *)
(* Whatever the machine that stands for expat + the SAX handler (stepped octet by octet; its _root, once set, stays
   set, and a new parser has none), whatever the session side (dispatch), from every state: the stream cut into reads
   at any positions leaves exactly the state one single read of the whole stream leaves — the same messages dispatched
   in the same order (SAX output or DOM message), the same octets consumed by each reply's parser, the same mode, the
   same held-back octets, head and buffer, the same exception or the same excluded state (Stuck: see the model). *)
Theorem C18_segmentation_independent :
  forall (W X : Type) (xnew : W -> X) (xstep : W -> X -> N -> xres X) (xrooted : X -> bool)
         (dispatch : W -> bool -> bytes -> dres W),
    (forall w x c x' o, xstep w x c = XOk x' o -> xrooted x = true -> xrooted x' = true) ->
    (forall w, xrooted (xnew w) = false) ->
    forall s stream cuts,
      JunosParse.run W X xnew xstep xrooted dispatch s (segments stream cuts) =
      JunosParse.run W X xnew xstep xrooted dispatch s [stream].
Proof. exact c18_segmentation_independent. Qed.
Print Assumptions C18_segmentation_independent.

(* the same for any two ways of reading the same octets (empty reads included) *)
Theorem C18_reads_independent :
  forall (W X : Type) (xnew : W -> X) (xstep : W -> X -> N -> xres X) (xrooted : X -> bool)
         (dispatch : W -> bool -> bytes -> dres W),
    (forall w x c x' o, xstep w x c = XOk x' o -> xrooted x = true -> xrooted x' = true) ->
    (forall w, xrooted (xnew w) = false) ->
    forall s reads1 reads2, reads1 <> [] -> reads2 <> [] -> concat reads1 = concat reads2 ->
      JunosParse.run W X xnew xstep xrooted dispatch s reads1 = JunosParse.run W X xnew xstep xrooted dispatch s reads2.
Proof. exact c18_reads_independent. Qed.
Print Assumptions C18_reads_independent.

(* the instance the correspondence runs (expat as an oracle of events per octet, the modelled handler, the session as
   an oracle per reply) meets both conditions: no hypothesis left *)
Theorem C18_segmentation_independent_sax : forall s stream cuts,
  sx_run s (segments stream cuts) = sx_run s [stream].
Proof. exact c18_segmentation_independent_sax. Qed.
Print Assumptions C18_segmentation_independent_sax.

(* No octet of an end-of-message delimiter reaches the XML parser: split the whole stream at its delimiters (leftmost,
   non-overlapping: [frames], which contain no delimiter: C18_frames_clean); then, however the stream is cut into reads,
   the k-th XML parser consumed a beginning of the k-th frame without its leading white space ([cov]) — all of it when
   the reply was parsed to its end, less when the handler signalled the switch to DOM parsing or raised, nothing for a
   reply the DOM parser took from its first octet. *)
Theorem C18_delimiter_never_parsed :
  forall (W X : Type) (xnew : W -> X) (xstep : W -> X -> N -> xres X) (xrooted : X -> bool)
         (dispatch : W -> bool -> bytes -> dres W),
    (forall w x c x' o, xstep w x c = XOk x' o -> xrooted x = true -> xrooted x' = true) ->
    (forall w, xrooted (xnew w) = false) ->
    forall w reads, reads <> [] ->
      cov (rev (fed (JunosParse.run W X xnew xstep xrooted dispatch (JunosParse.init W X xnew w) reads)))
          (frames (concat reads)).
Proof. exact c18_delimiter_never_parsed. Qed.
Print Assumptions C18_delimiter_never_parsed.

Theorem C18_frames_clean : forall b, Forall (fun p => find_sub Framing10.delim10 p = None) (frames b).
Proof. exact frames_clean. Qed.
Print Assumptions C18_frames_clean.

Theorem C18_delimiter_never_parsed_sax : forall w reads, reads <> [] ->
  cov (rev (fed (sx_run (sx_init w) reads))) (frames (concat reads)).
Proof. exact c18_delimiter_never_parsed_sax. Qed.
Print Assumptions C18_delimiter_never_parsed_sax.

(* non-vacuity: a machine that echoes what it is given, has its root after two octets, signals the switch on "!" and
   rejects "?".  The stream: a reply, the delimiter, white space, a reply that makes the parser switch, the delimiter, the
   beginning of a third reply ending in what may begin a delimiter.  Cut inside both delimiters (and elsewhere) and
   uncut: the same two messages ("ab" written by the handler, "!cd" by the DOM path), the parsers consumed "ab", "!",
   "ef" (frames "ab", "  !cd", "ef]"), "]" is held back. *)
Definition toy_step (w : unit) (x : nat) (c : N) : xres nat :=
  if N.eqb c 33 then XSwitch [] else if N.eqb c 63 then XErr else XOk (S x) [c].
Definition toy_rooted (x : nat) : bool := (2 <=? x)%nat.
Definition toy_run := JunosParse.run unit nat (fun _ => O) toy_step toy_rooted (fun w _ _ => DOk w true).
Definition toy_init := JunosParse.init unit nat (fun _ => O) tt.
Definition toy_stream : bytes := L "ab]]>]]>  !cd]]>]]>ef]".

Example C18_ex_segments :
  segments toy_stream [3; 2; 7; 1; 3]%nat = [L "ab]"; L "]>"; L "]]>  !c"; L "d"; L "]]>"; L "]]>ef]"] /\
  frames toy_stream = [L "ab"; L "  !cd"; L "ef]"].
Proof. vm_compute. split; reflexivity. Qed.

Example C18_ex_cut_run :
  toy_run toy_init (segments toy_stream [3; 2; 7; 1; 3]%nat) =
  mk tt [(true, L "ab"); (false, L "!cd")] [L "ef"; L "!"; L "ab"] (Run (Sax (L "]") [] 2%nat (L "ef"))) /\
  toy_run toy_init [toy_stream] = toy_run toy_init (segments toy_stream [3; 2; 7; 1; 3]%nat).
Proof. vm_compute. split; reflexivity. Qed.

(* the conditions of the theorems hold of the toy machine *)
Example C18_ex_toy_conditions :
  (forall w x c x' o, toy_step w x c = XOk x' o -> toy_rooted x = true -> toy_rooted x' = true) /\
  (forall w : unit, toy_rooted O = false).
Proof.
  split; [|reflexivity]. intros w x c x' o H R. unfold toy_step in H.
  destruct (N.eqb c 33); [discriminate|]. destruct (N.eqb c 63); [discriminate|]. injection H as <- _.
  unfold toy_rooted in *. apply Nat.leb_le in R. apply Nat.leb_le. lia.
Qed.

(* the excluded regions are visible: "?" (expat rejects) ends in Stuck WExpat, in every segmentation alike *)
Example C18_ex_stuck :
  stat (toy_run toy_init [L "a?b]]>]]>"]) = Stuck WExpat /\
  toy_run toy_init [L "a?"; L "b]]>]]>"] = toy_run toy_init [L "a?b]]>]]>"].
Proof. vm_compute. split; reflexivity. Qed.

(* ---------------- the driver on a base:1.1 session (Model/JunosParse11.v) ---------------- *)
(* Chunked framing: DefaultXMLParser.parse/_parse11 puts the messages together (C01's model Framing11.feed11, unchanged)
   and JunosXMLParser._dispatch11 runs every complete message through a fresh filter machine: its output is dispatched
   when the machine reads the message to its end, the message as received when it signals the switch (request without
   filter, not a reply) or expat rejects it.  Whatever the machine and the session side, no conditions: the session
   side of a run (world, messages dispatched in order, octets each message's parser consumed, the exception that ended
   the session if any) depends on the concatenation of the reads only. *)
Theorem C18_base11_reads_independent :
  forall (W X : Type) (xnew : W -> X) (xstep : W -> X -> N -> xres X) (xrooted : X -> bool)
         (dispatch : W -> bool -> bytes -> dres W) w reads1 reads2,
    concat reads1 = concat reads2 ->
    fst (run11 W X xnew xstep xrooted dispatch (init11s W w) reads1) =
    fst (run11 W X xnew xstep xrooted dispatch (init11s W w) reads2).
Proof. exact c18_base11_reads_independent. Qed.
Print Assumptions C18_base11_reads_independent.

(* ... and not on the chunking either: for messages (valid UTF-8) each sent in any number of non-empty chunks (cut at
   octet granularity: inside a tag or a multi-byte character), read in any segmentation, every message goes through
   the filter exactly once, complete, in order ([enc11]: the RFC 6242 encoder of Spec/RefFraming.v). *)
Theorem C18_base11_chunking :
  forall (W X : Type) (xnew : W -> X) (xstep : W -> X -> N -> xres X) (xrooted : X -> bool)
         (dispatch : W -> bool -> bytes -> dres W) w (css : list (list bytes)) (reads : list bytes),
    Forall (Forall (fun c => c <> [])) css -> Forall (fun cs => utf8_valid (concat cs) = true) css ->
    concat reads = enc11 css ->
    fst (run11 W X xnew xstep xrooted dispatch (init11s W w) reads) =
    deliver11 W X xnew xstep xrooted dispatch (start11 W w) (map (fun cs => Framing10.Deliver (concat cs)) css).
Proof. exact c18_base11_chunking. Qed.
Print Assumptions C18_base11_chunking.

(* The filter is the one of base:1.0: a message the filter machine reads to its end (a reply to a request with a
   filter), without leading white space and without "]]>]]>" inside, is dispatched as the same octets (the handler's
   output), to the same effect on the session, as when it arrives in end-of-message framing. *)
Theorem C18_base11_as_base10 :
  forall (W X : Type) (xnew : W -> X) (xstep : W -> X -> N -> xres X) (xrooted : X -> bool)
         (dispatch : W -> bool -> bytes -> dres W) w t x o,
    find_sub Framing10.delim10 (t ++ Framing10.delim10) = Some (t, []) -> blstrip t = t ->
    feed W X xstep xrooted w (xnew w) t = FOk x o ->
    let s10 := JunosParse.parse W X xnew xstep xrooted dispatch (JunosParse.init W X xnew w) (t ++ Framing10.delim10) in
    let d11 := dispatch11 W X xnew xstep xrooted dispatch (start11 W w) t in
    wd s10 = dw d11 /\ outs s10 = douts d11 /\
    match stat s10 with JunosParse.Dead e => Some e | JunosParse.Run _ => None | _ => Some 0 end = ddead d11.
Proof. exact c18_base11_as_base10. Qed.
Print Assumptions C18_base11_as_base10.

(* non-vacuity, the toy machine of above: three chunked messages -- "ab" (one chunk), "!cd" (chunks "!" and "cd": the
   switch signal), "a?b" (expat rejects) -- uncut and cut inside chunk headers, chunk data and end-of-chunks: "ab" is
   dispatched as written by the handler, the other two as received; the parsers consumed "ab", "!", "a?". *)
Definition toy_run11 := run11 unit nat (fun _ => O) toy_step toy_rooted (fun w _ _ => DOk w true).
Definition NL : bytes := [10].
Definition toy_stream11 : bytes :=
  NL ++ L "#2" ++ NL ++ L "ab" ++ NL ++ L "##" ++ NL ++
  NL ++ L "#1" ++ NL ++ L "!" ++ NL ++ L "#2" ++ NL ++ L "cd" ++ NL ++ L "##" ++ NL ++
  NL ++ L "#3" ++ NL ++ L "a?b" ++ NL ++ L "##" ++ NL.

Example C18_ex_base11_run :
  fst (toy_run11 (init11s unit tt) [toy_stream11]) =
  mkd tt [(true, L "ab"); (false, L "!cd"); (false, L "a?b")] [L "a?"; L "!"; L "ab"] None /\
  toy_run11 (init11s unit tt) (segments toy_stream11 [2; 3; 5; 2; 6; 1; 9]%nat) = toy_run11 (init11s unit tt) [toy_stream11] /\
  toy_stream11 = enc11 [[L "ab"]; [L "!"; L "cd"]; [L "a?b"]].
Proof. vm_compute. repeat split; reflexivity. Qed.

(* a framing error (octets that can not begin a chunk header) ends the session; messages before it were dispatched *)
Example C18_ex_base11_framing_error :
  fst (toy_run11 (init11s unit tt) [NL ++ L "#2" ++ NL ++ L "ab" ++ NL ++ L "##" ++ NL ++ L "<x/>"]) =
  mkd tt [(true, L "ab")] [L "ab"] (Some (E_FRAMING Framing10.K_FRAMING)).
Proof. vm_compute. reflexivity. Qed.

(* the hypotheses of C18_base11_as_base10 are satisfiable: "ab" under either framing *)
Example C18_ex_base11_as_base10 :
  find_sub Framing10.delim10 (L "ab" ++ Framing10.delim10) = Some (L "ab", []) /\ blstrip (L "ab") = L "ab" /\
  feed unit nat toy_step toy_rooted tt O (L "ab") = FOk 2%nat (L "ab").
Proof. vm_compute. repeat split; reflexivity. Qed.

(* ---------------- several sessions in one process (Model/JunosProcess.v) ---------------- *)
(* "independent of other replies adjacent in the stream", process-wide: an application has several Junos sessions (very
   often with the same filter), each with its own worker; their reads interleave in any order.  A process state is the
   list of the sessions' driver states, a schedule the list of reads (session index, octets) in the order they are
   taken.  Under EVERY schedule, session k ends exactly where it ends alone over its own reads (mixed process: sessions
   in end-of-message and in chunked framing, the instance the correspondence runs) ... *)
Theorem C18_sessions_alone : forall ss sched k,
  nth_error (sx_prun ss sched) k = option_map (fun s => fold_left sparse (reads_of k sched) s) (nth_error ss k).
Proof. exact c18_sessions_alone. Qed.
Print Assumptions C18_sessions_alone.

(* ... hence the process ends where it ends when the sessions run one after the other ... *)
Theorem C18_sessions_one_by_one : forall ss sched, sx_prun ss sched = sx_prun ss (one_by_one (length ss) sched).
Proof. exact c18_sessions_one_by_one. Qed.
Print Assumptions C18_sessions_one_by_one.

(* ... and, for the base:1.0 driver with any machine that meets the conditions of the segmentation theorem and any
   dispatch function, two schedules that give every session the same octets (in however many reads, interleaved however)
   leave the same process state: the same messages dispatched on every session, the same parser states. *)
Theorem C18_sessions_octets :
  forall (W X : Type) (xnew : W -> X) (xstep : W -> X -> N -> xres X) (xrooted : X -> bool)
         (dispatch : W -> bool -> bytes -> dres W),
    (forall w x c x' o, xstep w x c = XOk x' o -> xrooted x = true -> xrooted x' = true) ->
    (forall w, xrooted (xnew w) = false) ->
    forall ss s1 s2,
      (forall k, (k < length ss)%nat ->
         concat (reads_of k s1) = concat (reads_of k s2) /\ (reads_of k s1 = [] <-> reads_of k s2 = [])) ->
      prun _ (JunosParse.parse W X xnew xstep xrooted dispatch) ss s1 =
      prun _ (JunosParse.parse W X xnew xstep xrooted dispatch) ss s2.
Proof. exact c18_sessions_octets. Qed.
Print Assumptions C18_sessions_octets.

(* non-vacuity, the toy machine of above: two sessions read the toy stream, one cut inside both delimiters, the other
   cut elsewhere, their reads dealt out in turn (and one session two reads ahead): both end as the single session of
   C18_ex_cut_run does; `deal` is the schedule the harness builds from an order of turns. *)
Definition toy_prun := prun _ (JunosParse.parse unit nat (fun _ => O) toy_step toy_rooted (fun w _ _ => DOk w true)).
Definition toy_sched : list (nat * bytes) :=
  deal [0; 1; 0; 1; 0; 1; 0; 1; 0; 0]%nat [segments toy_stream [3; 2; 7; 1; 3]%nat; segments toy_stream [1; 9; 4]%nat].

Example C18_ex_sessions_schedule :
  toy_sched = [(0, L "ab]"); (1, L "a"); (0, L "]>"); (1, L "b]]>]]>  "); (0, L "]]>  !c"); (1, L "!cd]");
               (0, L "d"); (1, L "]>]]>ef]"); (0, L "]]>"); (0, L "]]>ef]")]%nat /\
  reads_of 1 toy_sched = segments toy_stream [1; 9; 4]%nat.
Proof. vm_compute. split; reflexivity. Qed.

Example C18_ex_sessions_run :
  toy_prun [toy_init; toy_init] toy_sched = [toy_run toy_init [toy_stream]; toy_run toy_init [toy_stream]] /\
  toy_prun [toy_init; toy_init] (deal [1; 1; 0; 0; 0; 1; 0; 1; 0; 0]%nat
       [segments toy_stream [3; 2; 7; 1; 3]%nat; segments toy_stream [1; 9; 4]%nat]) = toy_prun [toy_init; toy_init] toy_sched /\
  toy_prun [toy_init; toy_init] (one_by_one 2 toy_sched) = toy_prun [toy_init; toy_init] toy_sched.
Proof. vm_compute. repeat split; reflexivity. Qed.
