(* Props/C04_hist.v — C04 holds for a session OBJECT whatever was done to it before the connection that is lost:
   failed connect() attempts of any kind, close(), the manager's clean-up after a failed attempt, in any order, on
   each of the three transports.  Model: Model/SessionHist.v (flags of the object) + Model/SessionLTS.v. *)
From NC Require Import Model.Base Model.SessionLTS Model.SessionHist Proofs.SessionLTSProofs Proofs.SessionHistProofs.

(* The successful connect() writes both flags: the session thread starts in the initial state of the LTS after
   EVERY history, so every theorem about [reach] (Props/C03.v, C04.v, C11.v, C14_session.v, E2E.v) applies. *)
Theorem C04_hist_fresh_start : forall k q h, session_start k q h = init q.
Proof. exact hist_fresh_start. Qed.
Print Assumptions C04_hist_fresh_start.

Theorem C04_hist_reach : forall k q h ls s, run (session_start k q h) ls = Some s -> reach s.
Proof. exact hist_reach. Qed.
Print Assumptions C04_hist_reach.

(* The loss clauses of C04 spelled out for a re-used object: once the worker closed / exited the session reports
   itself disconnected and every request written and unanswered holds its error with the event set. *)
Theorem C04_hist_loss : forall k q h ls s,
  run (session_start k q h) ls = Some s -> pc s = WClosed \/ pc s = WExited ->
  connected s = false /\
  (forall rid r, rq s rid = Some r -> In rid (wrote s) -> r_reply r = None -> r_error r <> None /\ r_ev r = true).
Proof. exact c04_hist_loss. Qed.
Print Assumptions C04_hist_loss.

(* Why the clear in connect() is needed (the statement without it is FALSE of the model): a connect() that keeps the
   closing flag of a history ending in a close starts the session in a state from which the worker stops - at its
   first idle tick or at the peer's end-of-file - without closing: stopped, yet reporting connected. *)
Theorem C04_hist_stale_refuted : forall k q h,
  o_closing (hist_run k h) = true ->
  exists s, run (session_start_stale k q h) [LErrBcast 1; LExit] = Some s /\ pc s = WExited /\ connected s = true.
Proof.
  intros k q h H. destruct (stale_start_differs k q h H) as [Hc Hco].
  apply stale_start_breaks; try assumption; reflexivity.
Qed.
Print Assumptions C04_hist_stale_refuted.

(* Non-vacuity. What manager.connect_ssh leaves behind after a failed authentication (a transport exists: close()
   runs) sets the closing flag; the same clean-up does nothing on TLS / Unix (no socket yet) but a plain close() does. *)
Example C04_hist_ex_flags :
  hist_run KSsh [HFailEarly; HMgrClose] = {| o_closing := true; o_connected := false; o_handle := true |} /\
  hist_run KTls [HFailEarly; HMgrClose] = obj0 /\
  hist_run KUnix [HFailEarly; HClose] = {| o_closing := true; o_connected := false; o_handle := false |} /\
  hist_run KSsh [HFailAuthd] = {| o_closing := false; o_connected := true; o_handle := true |} /\
  hist_run KSsh [HClose; HFailAuthd; HMgrClose; HFailEarly] = {| o_closing := true; o_connected := false; o_handle := true |}.
Proof. vm_compute. repeat split; reflexivity. Qed.

(* after such a history and the successful connect: a request is written, the peer closes, the request fails with
   SessionCloseError, the session is disconnected, a later request is refused *)
Example C04_hist_ex_loss :
  match run (session_start KSsh true [HFailEarly; HMgrClose])
            [LReg 0 100; LChk 0 true; LPut 0; LDeq 0; LReadEof; LErrBcast 1; LTValues [100]; LTClear; LEvSetErr 0;
             LClose 0; LExit; LWaitRes 0 true; LReg 1 101; LChk 1 false] with
  | Some s => map r_st (reqs s) = [CDone (OExc 1); CDone (OExc 5)] /\ pc s = WExited /\ connected s = false
  | None => False
  end.
Proof. vm_compute. repeat split; reflexivity. Qed.

(* the stale start on the same history: the worker is gone after two effects, the session still reports connected and a
   request is accepted into the queue of a session nobody serves *)
Example C04_hist_ex_stale :
  match run (session_start_stale KSsh true [HFailEarly; HMgrClose]) [LErrBcast 1; LExit; LReg 0 100; LChk 0 true; LPut 0] with
  | Some s => map r_st (reqs s) = [CSent] /\ pc s = WExited /\ connected s = true /\ wrote s = []
  | None => False
  end.
Proof. vm_compute. repeat split; reflexivity. Qed.
