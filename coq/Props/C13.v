(* Props/C13.v — property C13: the lock context manager pairs lock and unlock.
   Only statements, closed by [exact], each followed by Print Assumptions.
   Model: Model/LockCtx.v (operations/lock.py LockContext after fix F14, manager.locked) on top of
   Model/RpcErrors.v (C06's raise decision).  Spec: Spec/LockCtxSpec.v.
   All theorems hold for every program (nesting unbounded), every server-answer oracle (a function
   of the whole request history), every manager raise mode and every exempt-pattern classification. *)
From Coq Require Import String.
From NC Require Import Model.Base Model.Lit Model.RpcErrors Model.LockCtx Spec.LockCtxSpec Proofs.BaseFacts Proofs.LockCtxProofs.

(* An accepted lock is followed by exactly the body's events (the body runs in the history extended
   by the lock) and then exactly one unlock of the same datastore — whatever the body does. *)
Theorem C13_bracket : forall orc c mode t body hist,
  decide MODE_ERRORS (orc hist K_LOCK t) c = Return ->
  let lk := mkEv K_LOCK t true false in
  let tb := fst (exec orc c mode body (hist ++ [lk])) in
  exists u, fst (exec orc c mode (Locked t body) hist) = [lk] ++ tb ++ [mkEv K_UNLOCK t true u].
Proof. exact c13_bracket. Qed.
Print Assumptions C13_bracket.

(* LIFO: over any program, the lock/unlock requests sent by contexts follow the stack discipline of
   Spec.LockCtxSpec.ctx_run — every context unlock names the most recent still-open accepted context
   lock, a refused lock opens nothing, and the program leaves the stack as it found it. *)
Theorem C13_lifo : forall orc c mode p hist stack,
  ctx_run (fst (exec orc c mode p hist)) stack = Some stack.
Proof. exact c13_lifo. Qed.
Print Assumptions C13_lifo.

(* ... with exactly one context unlock per accepted context lock. *)
Theorem C13_exactly_one_unlock : forall orc c mode p hist,
  accepted_ctx_locks (fst (exec orc c mode p hist)) = ctx_unlocks (fst (exec orc c mode p hist)).
Proof. exact c13_counts. Qed.
Print Assumptions C13_exactly_one_unlock.

(* A refused lock: the only event is the lock, the body contributes nothing, no unlock is sent,
   and the caller sees the lock's RPCError. *)
Theorem C13_lock_refused : forall orc c mode t body hist,
  lock_refused orc c t hist ->
  exec orc c mode (Locked t body) hist =
  ([mkEv K_LOCK t true true], Exc (RpcExn K_LOCK t (decide MODE_ERRORS (orc hist K_LOCK t) c))).
Proof. exact c13_lock_refused. Qed.
Print Assumptions C13_lock_refused.

(* The body's exception is the context's outcome, whatever the server answers to the unlock (fix F14). *)
Theorem C13_propagates : forall orc c mode t body hist x,
  decide MODE_ERRORS (orc hist K_LOCK t) c = Return ->
  snd (exec orc c mode body (hist ++ [mkEv K_LOCK t true false])) = Exc x ->
  snd (exec orc c mode (Locked t body) hist) = Exc x.
Proof. exact c13_propagates. Qed.
Print Assumptions C13_propagates.

(* When the body ends normally the context ends as its unlock request does. *)
Theorem C13_normal_body : forall orc c mode t body hist,
  decide MODE_ERRORS (orc hist K_LOCK t) c = Return ->
  let lk := mkEv K_LOCK t true false in
  snd (exec orc c mode body (hist ++ [lk])) = Normal ->
  snd (exec orc c mode (Locked t body) hist) =
  snd (request orc c MODE_ERRORS true K_UNLOCK t (hist ++ [lk] ++ fst (exec orc c mode body (hist ++ [lk])))).
Proof. exact c13_normal_body. Qed.
Print Assumptions C13_normal_body.

(* "Answered with a warning only" whatever the SHAPE of the warnings (children missing, empty, padded, unknown severity
   texts; [orc] is any list of parsed rpc-errors, e.g. Model.RpcErrors.parse_errors of any reply tree): no rpc-error
   whose severity is exactly 'error' => the lock is granted: body, then the unlock. *)
Theorem C13_warning_only_lock_granted : forall orc c mode t body hist,
  existsb sev_is_error (orc hist K_LOCK t) = false ->
  let lk := mkEv K_LOCK t true false in
  let tb := fst (exec orc c mode body (hist ++ [lk])) in
  exists u, fst (exec orc c mode (Locked t body) hist) = [lk] ++ tb ++ [mkEv K_UNLOCK t true u].
Proof. exact c13_warning_only_lock_granted. Qed.
Print Assumptions C13_warning_only_lock_granted.

(* Requests the body fires asynchronously and leaves in flight (the caller drops the RPC object): the server receives
   them, the caller sees nothing of their replies - whatever the server answers, whenever the answer arrives - so every
   theorem above covers bodies with requests in flight; in particular the unlock follows them. *)
Theorem C13_async_request_in_flight : forall orc c mode k t hist,
  exec orc c mode (AReq k t) hist = ([mkEv k t false false], Normal).
Proof. reflexivity. Qed.
Print Assumptions C13_async_request_in_flight.

(* ---------- non-vacuity ---------- *)
Definition B (s : string) : bytes := lit s.
Definition err (sev msg : string) : rpc_error := mkErr None None None (Some (B sev)) None None (Some (B msg)).
Definition running := B "running". Definition candidate := B "candidate".
Definition nopats := classify [].
(* with locked(running): with locked(candidate): get-config; raise 7      -- all unlocks answered with an error *)
Definition ex_prog := Locked running (Locked candidate (Seq (Req 2 running) (Raise 7))).
Definition ex_answers : list (list rpc_error) := [[]; [err "warning" "w"]; []; [err "error" "u1"]; [err "error" "u2"]].

Example C13_ex_run :
  exec (scripted ex_answers) nopats MODE_ALL ex_prog [] =
  ([mkEv K_LOCK running true false; mkEv K_LOCK candidate true false; mkEv 2 running false false;
    mkEv K_UNLOCK candidate true true; mkEv K_UNLOCK running true true],
   Exc (BodyExn 7)).
Proof. vm_compute. reflexivity. Qed.

Example C13_ex_hypotheses :
  decide MODE_ERRORS (scripted ex_answers [] K_LOCK running) nopats = Return /\
  snd (exec (scripted ex_answers) nopats MODE_ALL (Locked candidate (Seq (Req 2 running) (Raise 7)))
            ([] ++ [mkEv K_LOCK running true false])) = Exc (BodyExn 7).
Proof. vm_compute. split; reflexivity. Qed.

Example C13_ex_refused :
  lock_refused (scripted [[err "warning" "w"; err "error" "denied"]]) nopats running [] /\
  exec (scripted [[err "warning" "w"; err "error" "denied"]]) nopats MODE_NONE (Locked running (Req 2 running)) [] =
  ([mkEv K_LOCK running true true],
   Exc (RpcExn K_LOCK running (RaiseAggregate [err "warning" "w"; err "error" "denied"]))).
Proof. split; [unfold lock_refused; vm_compute; discriminate | vm_compute; reflexivity]. Qed.

Example C13_ex_unlock_error_after_normal_body :
  snd (exec (scripted [[]; [err "error" "u"]]) nopats MODE_NONE (Locked running Ret) []) =
  Exc (RpcExn K_UNLOCK running (RaiseSingle (err "error" "u"))).
Proof. vm_compute. reflexivity. Qed.

(* a body that leaves two requests in flight, both answered with errors, the lock granted with a warning only:
   lock, the two requests, unlock; the context ends normally *)
Example C13_ex_in_flight :
  exec (scripted [[err "warning" "w"]; [err "error" "a1"]; [err "error" "a2"]; []]) nopats MODE_ALL
       (Locked running (Seq (AReq 2 running) (AReq 2 candidate))) [] =
  ([mkEv K_LOCK running true false; mkEv 2 running false false; mkEv 2 candidate false false;
    mkEv K_UNLOCK running true false], Normal).
Proof. vm_compute. reflexivity. Qed.

(* a granted lock whose reply is a warning with EMPTY <error-path/>, <error-app-tag/>, <error-message/> children (text
   None), computed from the reply tree by parse_errors: the hypothesis of C13_warning_only_lock_granted holds *)
Definition qn (s : string) : bytes := lit ("{urn:ietf:params:xml:ns:netconf:base:1.0}" ++ s).
Definition leaf (s : string) (t : option bytes) : node := Elem (qn s) [] t [] [].
Definition ex_warning_reply : node :=
  Elem (qn "rpc-reply") [] None []
    [Elem (qn "rpc-error") [] None []
       [leaf "error-type" (Some (B "application")); leaf "error-severity" (Some (B "warning"));
        leaf "error-app-tag" None; leaf "error-path" None; leaf "error-message" None]].
Example C13_ex_empty_children :
  existsb sev_is_error (parse_errors ex_warning_reply) = false /\
  exec (fun h _ _ => match h with [] => parse_errors ex_warning_reply | _ => [] end) nopats MODE_ALL (Locked candidate Ret) [] =
  ([mkEv K_LOCK candidate true false; mkEv K_UNLOCK candidate true false], Normal).
Proof. vm_compute. split; reflexivity. Qed.

(* ---- ONE LockContext object entered several times (`ctx = m.locked(t)` kept, `with ctx:` in a retry loop).
   The object is a value (Model/LockCtx.v [lockctx], [Reuse]): nothing of an earlier entry survives in it. *)

(* first entry refused (caught by the loop), second granted: the refused entry is its lock request only; the granted
   one is lock, exactly its body's events, exactly one unlock of the same datastore *)
Theorem C13_reuse_refused_then_granted : forall orc c mode t b1 b2 caught2 hist,
  lock_refused orc c t hist ->
  let lr := mkEv K_LOCK t true true in
  let lk := mkEv K_LOCK t true false in
  decide MODE_ERRORS (orc (hist ++ [lr]) K_LOCK t) c = Return ->
  let tb := fst (exec orc c mode b2 ((hist ++ [lr]) ++ [lk])) in
  exists u, fst (exec orc c mode (Reuse t [(true, b1); (caught2, b2)]) hist) = [lr] ++ ([lk] ++ tb ++ [mkEv K_UNLOCK t true u]).
Proof. exact c13_reuse_refused_then_granted. Qed.
Print Assumptions C13_reuse_refused_then_granted.

(* granted twice in a row: two complete brackets, each with its own single unlock *)
Theorem C13_reuse_granted_twice : forall orc c mode t b1 b2 caught2 hist,
  let lk := mkEv K_LOCK t true false in
  decide MODE_ERRORS (orc hist K_LOCK t) c = Return ->
  let tb1 := fst (exec orc c mode b1 (hist ++ [lk])) in
  forall u1, fst (exec orc c mode (Locked t b1) hist) = [lk] ++ tb1 ++ [mkEv K_UNLOCK t true u1] ->
  let h2 := hist ++ ([lk] ++ tb1 ++ [mkEv K_UNLOCK t true u1]) in
  decide MODE_ERRORS (orc h2 K_LOCK t) c = Return ->
  let tb2 := fst (exec orc c mode b2 (h2 ++ [lk])) in
  exists u2, fst (exec orc c mode (Reuse t [(true, b1); (caught2, b2)]) hist) =
             ([lk] ++ tb1 ++ [mkEv K_UNLOCK t true u1]) ++ ([lk] ++ tb2 ++ [mkEv K_UNLOCK t true u2]).
Proof. exact c13_reuse_granted_twice. Qed.
Print Assumptions C13_reuse_granted_twice.

(* any number of entries, any bodies, any answers: #context unlocks = #granted entries *)
Theorem C13_reuse_exactly_one_unlock_per_granted_entry : forall orc c mode t es hist,
  accepted_ctx_locks (fst (exec orc c mode (Reuse t es) hist)) = ctx_unlocks (fst (exec orc c mode (Reuse t es) hist)).
Proof. exact c13_reuse_counts. Qed.
Print Assumptions C13_reuse_exactly_one_unlock_per_granted_entry.

(* a retry loop of three entries: refused, refused, granted (the body makes a request); then nothing is left locked *)
Example C13_ex_retry_loop :
  lock_refused (scripted [[err "error" "denied"]; [err "error" "denied"]; []]) nopats candidate [] /\
  exec (scripted [[err "error" "denied"]; [err "error" "denied"]; []]) nopats MODE_ALL
       (Reuse candidate [(true, Req 2 candidate); (true, Req 2 candidate); (false, Req 2 candidate)]) [] =
  ([mkEv K_LOCK candidate true true; mkEv K_LOCK candidate true true; mkEv K_LOCK candidate true false;
    mkEv 2 candidate false false; mkEv K_UNLOCK candidate true false], Normal).
Proof. split; [unfold lock_refused; vm_compute; discriminate | vm_compute; reflexivity]. Qed.
