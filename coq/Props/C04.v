(* Props/C04.v — transport loss fails every outstanding request; no call outlives its timeout.
   Model: Model/SessionLTS.v. The error path is modelled effect by effect (snapshot+clear of the pending
   table under its lock, one deliver_error per snapshot entry, close, exit); requests may be registered by
   other threads between any two of these effects. *)
From NC Require Import Model.Base Model.SessionLTS Proofs.SessionLTSProofs.

(* Once the worker has processed the loss (EOF, read error, failed dispatch) and closed or exited — under
   every interleaving with threads registering and sending new requests — every request that had been
   written to the transport and has no reply has its error stored and its event set. *)
Theorem C04_all_failed : forall s rid r,
  reach s -> pc s = WClosed \/ pc s = WExited ->
  rq s rid = Some r -> In rid (wrote s) -> r_reply r = None ->
  r_error r <> None /\ r_ev r = true.
Proof. exact c04_all_failed. Qed.
Print Assumptions C04_all_failed.

(* Promptness: this already holds when the broadcast has delivered its last error, i.e. after exactly
   |snapshot| deliver steps following the snapshot, with no blocking label in between. *)
Theorem C04_prompt : forall s rid r e,
  reach s -> pc s = WErrDeliver e [] ->
  rq s rid = Some r -> In rid (wrote s) -> r_reply r = None -> r_error r <> None /\ r_ev r = true.
Proof. exact c04_all_failed_after_broadcast. Qed.
Print Assumptions C04_prompt.

(* The stored error is the broadcast one; after the peer closed the connection it is SessionCloseError
   (code 1), a TransportError. *)
Theorem C04_error_kind : forall s rid r e,
  reach s -> rq s rid = Some r -> r_error r = Some e ->
  bcast s = Some e /\ (eof_seen s = true -> e = 1).
Proof. exact c04_error_is_broadcast. Qed.
Print Assumptions C04_error_kind.

(* The session then reports itself disconnected ... *)
Theorem C04_disconnected : forall s, reach s -> pc s = WClosed \/ pc s = WExited -> connected s = false.
Proof. exact c04_disconnected. Qed.
Print Assumptions C04_disconnected.

(* ... and a later request is refused with TransportError (code 5) without being queued. *)
Theorem C04_refused_after : forall s rid b s' r',
  connected s = false -> step s (LChk rid b) = Some s' -> rq s' rid = Some r' ->
  b = false /\ r_st r' = CDone (OExc 5).
Proof. exact c04_refused_after. Qed.
Print Assumptions C04_refused_after.

(* A stored error wins over everything else when the call returns: never a partial or foreign reply. *)
Theorem C04_error_wins : forall s rid s' r r',
  rq s rid = Some r -> r_error r <> None -> step s (LWaitRes rid true) = Some s' -> rq s' rid = Some r' ->
  exists e, r_st r' = CDone (OExc e).
Proof. exact c04_error_wins. Qed.
Print Assumptions C04_error_wins.

(* The only blocking point of a synchronous call is the bounded wait; when it ends (event set, or the
   timeout fired) the call ends: with TimeoutExpiredError (code 4) if the event was not set. *)
Theorem C04_bounded_wait : forall s rid flag s' r',
  step s (LWaitRes rid flag) = Some s' -> rq s' rid = Some r' ->
  exists o, r_st r' = CDone o /\ (flag = false -> o = OExc 4).
Proof. exact c04_wait_ends. Qed.
Print Assumptions C04_bounded_wait.

(* Non-vacuity: three requests on the wire, the peer closes; a fourth request is registered between the
   snapshot and the delivery of the errors (the F10 race window). *)
Definition ex_loss : list label :=
  [ LReg 0 100; LChk 0 true; LPut 0; LReg 1 101; LChk 1 true; LPut 1; LReg 2 102; LChk 2 true; LPut 2;
    LDeq 0; LDeq 1; LDeq 2;
    LReadEof; LErrBcast 1; LTValues [100; 101; 102]; LTClear;
    LEvSetErr 0; LReg 3 103; LEvSetErr 1; LChk 3 true; LEvSetErr 2; LPut 3;
    LClose 0; LExit; LWaitRes 0 true; LWaitRes 1 true; LWaitRes 2 true;
    LReg 4 104; LChk 4 false ].

Example C04_ex_loss :
  match run (init true) ex_loss with
  | Some s => map r_st (reqs s) = [CDone (OExc 1); CDone (OExc 1); CDone (OExc 1); CSent; CDone (OExc 5)]
              /\ pc s = WExited /\ connected s = false /\ wrote s = [0; 1; 2]%nat /\ eof_seen s = true
  | None => False
  end.
Proof. vm_compute. repeat split; reflexivity. Qed.

(* the pre-fix behaviour (iterating the live table while it changes) is not a trace of the model:
   errors cannot be delivered before the snapshot was taken and the table cleared *)
Example C04_ex_unlocked_iteration_rejected :
  run (init true) [LReg 0 100; LChk 0 true; LPut 0; LDeq 0; LReadEof; LErrBcast 1; LTValues [100]; LEvSetErr 0] = None.
Proof. vm_compute. reflexivity. Qed.
