(* Props/E2E.v — the session properties C03 / C04 / C11 stated over the OCTETS READ FROM THE TRANSPORT.
   Model: Model/SessionE2E.v = the session LTS (Model/SessionLTS.v) composed with the framing models
   (Model/Framing10.v, Framing11.v).  A trace [t] is any interleaving of
     ERead seg    one _transport_read() result ([] = end-of-file), parsed by parser.parse,
     EDispatch    the next complete message (or the parser's exception) of that parse call takes effect,
     EL l         any other shared-state effect of the client threads and of the worker (the LTS labels);
   the inbound labels LRecv / LRaise / LReadEof cannot be chosen by the trace, they come from octets only.
   [erun classify (einit q b11) t = Some (s, ls)]: the trace is accepted from the initial state of a session
   with profile flag q and base 1.1 iff b11; s is the state reached, ls the LTS labels that took place.
   [reads t] are the octet strings read, [stream_events b11 bs] (Spec/E2ESpec.v) the messages / framing error the
   byte-at-a-time reference automaton of Spec/RefFraming.v finds in the stream bs, however it is cut.
   Every theorem holds for EVERY classifier of message texts ([classify]: root tag / message-id -> kind, id), i.e.
   XML parsing is abstract; Model/Classify.v is the concrete instance used in the examples and in the replay. *)
From Coq Require Import String.
From NC Require Import Model.Base Model.Lit Model.Utf8 Model.Framing10 Model.Framing11 Model.SessionLTS Model.SessionE2E Model.Classify.
From NC Require Import Spec.RefFraming Spec.E2ESpec.
From NC Require Import Proofs.SessionLTSProofs Proofs.SessionE2EProofs.

(* Refinement: the LTS accepts the labels of every accepted byte-level trace and reaches the same state; hence every
   theorem of Props/C03.v, C04.v, C11.v, C14_session.v about [reach] states holds of every state the composed model
   reaches. *)
Theorem E2E_refines : forall classify q b11 t s ls,
  erun classify (einit q b11) t = Some (s, ls) -> run (init q) ls = Some (lts s) /\ reach (lts s).
Proof. intros. split; [eapply e2e_refines|eapply e2e_reach]; eauto. Qed.
Print Assumptions E2E_refines.

(* The message labels that took place, followed by those of the parse call in progress, are the labels of the messages
   of the STREAM (the concatenation of the reads): which messages the session sees, in which order, and whether / where
   parsing fails does not depend on the segmentation.  From C01_sim10 / C01_sim11 / C01_segmentation_independent. *)
Theorem E2E_segmentation_independent : forall classify q b11 t s ls,
  erun classify (einit q b11) t = Some (s, ls) ->
  filter is_msg ls ++ ev_labels classify (pend s) = ev_labels classify (stream_events b11 (concat (reads t))).
Proof. exact e2e_segmentation_independent. Qed.
Print Assumptions E2E_segmentation_independent.

(* Two runs (any interleavings, any profiles) that read the same stream cut differently see the same message labels. *)
Theorem E2E_same_stream_same_labels : forall classify q1 q2 b11 t1 t2 s1 s2 ls1 ls2,
  erun classify (einit q1 b11) t1 = Some (s1, ls1) -> erun classify (einit q2 b11) t2 = Some (s2, ls2) ->
  concat (reads t1) = concat (reads t2) ->
  filter is_msg ls1 ++ ev_labels classify (pend s1) = filter is_msg ls2 ++ ev_labels classify (pend s2).
Proof. exact e2e_same_stream_same_labels. Qed.
Print Assumptions E2E_same_stream_same_labels.

(* With the client threads quiet, the worker serving the reads one after the other (every message dispatched and
   followed to the end of its processing: delivery, enqueueing, or the error path) leaves the session in a state
   that depends on the stream only: every delivery and every outcome is the same for every segmentation. *)
Theorem E2E_serve_segmentation_independent : forall classify b11 s0 segs1 segs2,
  concat segs1 = concat segs2 ->
  serve_stream classify s0 (pinit b11) segs1 = serve_stream classify s0 (pinit b11) segs2.
Proof. exact e2e_serve_segmentation_independent. Qed.
Print Assumptions E2E_serve_segmentation_independent.

(* C03 over octets: under every interleaving and every stream of reads, a reply a request stores or returns carries the
   request's own message-id and is a well-framed message of the stream: a [Deliver m] of the reference automaton on the
   concatenation of the reads whose text classifies as rpc-reply with that id (or, for a profile without tag check,
   as another message with that id). *)
Theorem E2E_reply_to_its_request : forall classify q b11 t s ls rid r i,
  erun classify (einit q b11) t = Some (s, ls) -> rq (lts s) rid = Some r ->
  r_reply r = Some i \/ r_st r = CDone (OReply i) ->
  i = r_id r /\
  exists m, In (Deliver m) (stream_events b11 (concat (reads t))) /\
            (classify m = (0, i) \/ (classify m = (3, i) /\ q = false)).
Proof. exact e2e_reply_to_its_request. Qed.
Print Assumptions E2E_reply_to_its_request.

(* C04 over octets: if the stream breaks the framing or carries an undecodable frame (and the parse call that met it is
   over), or end-of-file was read (inside a message or not), then under every interleaving the worker has left its loop
   for good, and once it has closed / exited the session is disconnected and every request that was written and has no
   reply holds the error and has its event set. *)
Theorem E2E_loss_fails_all : forall classify q b11 t s ls,
  erun classify (einit q b11) t = Some (s, ls) ->
  (raised (stream_events b11 (concat (reads t))) = true /\ pend s = []) \/ saw_eof t = true ->
  left_loop (pc (lts s)) = true /\
  (pc (lts s) = WClosed \/ pc (lts s) = WExited ->
   connected (lts s) = false /\
   forall rid r, rq (lts s) rid = Some r -> In rid (wrote (lts s)) -> r_reply r = None ->
                 r_error r <> None /\ r_ev r = true).
Proof. exact e2e_loss_fails_all. Qed.
Print Assumptions E2E_loss_fails_all.

(* ... and the worker gets there by its own effects alone, whatever the clients do or do not do: from any state in
   which it has left the loop, a sequence of worker effects (accepted by the composed model) ends in WExited. *)
Theorem E2E_loss_completes : forall classify s,
  left_loop (pc (lts s)) = true ->
  exists ws s' ls, Forall worker_err_label ws /\ erun classify s (map EL ws) = Some (s', ls) /\ pc (lts s') = WExited.
Proof. exact e2e_loss_completes. Qed.
Print Assumptions E2E_loss_completes.

(* C11 over octets: what was taken, then what is queued, then the notification being enqueued, then the notifications of
   the parse call in progress = the notifications of the stream, each once, in stream order, for every segmentation. *)
Theorem E2E_notifications_in_order : forall classify q b11 t s ls,
  erun classify (einit q b11) t = Some (s, ls) ->
  taken (lts s) ++ nq (lts s) ++ pend_notif (pc (lts s)) ++ notif_args (ev_labels classify (pend s))
  = notif_args (ev_labels classify (stream_events b11 (concat (reads t)))).
Proof. exact e2e_notifications_in_order. Qed.
Print Assumptions E2E_notifications_in_order.

(* and [serve] never stops half-way through a message: left alone after a dispatch, the worker is idle again or has exited *)
Theorem E2E_settle_complete : forall s,
  pc (settle (settle_fuel s) s) = WIdle \/ pc (settle (settle_fuel s) s) = WExited.
Proof. exact settle_complete. Qed.
Print Assumptions E2E_settle_complete.

(* ================= non-vacuity: concrete octet streams ================= *)
Definition x_r100 := Eval compute in lit "<rpc-reply xmlns=""urn:ietf:params:xml:ns:netconf:base:1.0"" message-id=""urn:uuid:a100""><ok/></rpc-reply>"%string.
Definition x_r101 := Eval compute in lit "<?xml version=""1.0"" encoding=""UTF-8""?><nc:rpc-reply message-id='urn:uuid:b101' xmlns:nc=""urn:ietf:params:xml:ns:netconf:base:1.0""><nc:ok/></nc:rpc-reply>"%string.
Definition x_n7 := Eval compute in lit "<notification xmlns=""urn:ietf:params:xml:ns:netconf:notification:1.0""><eventTime>2026-01-01T00:00:07Z</eventTime><ev>n7</ev></notification>"%string.
Definition x_lit1 := Eval compute in lit "this is <<< not xml"%string.
Definition x_lit2 := Eval compute in lit "<rpc-reply xmlns=""urn:ietf:params:xml:ns:netconf:base:1.0""/>"%string.
Definition x_lit3 := Eval compute in lit "<frob xmlns=""urn:example:x"" message-id=""urn:uuid:a100""/>"%string.
Definition x_lit4 := Eval compute in lit "<rpc-reply message-id=""urn:uuid:zzz"" xmlns=""urn:ietf:params:xml:ns:netconf:base:1.0""/>"%string.
Definition x_lit5 := Eval compute in lit "urn:uuid:a100"%string.
Definition x_lit6 := Eval compute in lit "urn:uuid:b101"%string.
Definition x_ids : list (bytes * N) :=
  [ (x_lit5, 100); (x_lit6, 101) ].
Definition cls := classify_xml false x_ids.

Example E2E_ex_classify :
  cls x_r100 = (0, 100) /\ cls x_r101 = (0, 101) /\ cls x_n7 = (2, 7) /\
  cls x_lit1 = (5, 0) /\
  cls x_lit2 = (1, 0) /\
  cls x_lit3 = (3, 100) /\
  cls x_lit4 = (0, 7) /\
  classify_xml true x_ids ([0; 0] ++ x_r100 ++ [0]) = (0, 100) /\ cls ([0; 0] ++ x_r100 ++ [0]) = (5, 0).
Proof. vm_compute. repeat split; reflexivity. Qed.

(* base 1.1: the reply to the SECOND request first (one chunk), a notification, then the reply to the first request in
   two chunks; two requests pipelined by two client threads *)
Definition x_stream11 : bytes := enc11 [[x_r101]; [x_n7]; [firstn 20 x_r100; skipn 20 x_r100]].
Definition x_clients : list elabel :=
  map EL [LReg 0 100; LChk 0 true; LPut 0; LReg 1 101; LChk 1 true; LPut 1; LDeq 0; LDeq 1].
(* the worker's and the clients' effects once a message label took place *)
Definition x_after101 := map EL [LTGet 101 true; LEvSetReply 1; LTDel 101; LWaitRes 1 true].
Definition x_after7 := map EL [LNqPut 7].
Definition x_after100 := map EL [LTGet 100 true; LEvSetReply 0; LTDel 100; LWaitRes 0 true; LTake true 7].
(* segmentation A: the first read ends INSIDE THE CHUNK HEADER of the second message ("\n#1" of "\n#138\n"), the second
   read ends inside the first chunk of the third message; segmentation B: everything in one read; C: octet by octet *)
Definition x_cutA : nat := (length (enc_msg11 [x_r101]) + 3)%nat.
Definition x_cutA2 : nat := (length (enc_msg11 [x_r101]) + length (enc_msg11 [x_n7]) + 11)%nat.
Definition x_tA : list elabel :=
  x_clients ++ [ERead (firstn x_cutA x_stream11); EDispatch] ++ x_after101 ++
  [ERead (firstn (x_cutA2 - x_cutA) (skipn x_cutA x_stream11)); EDispatch] ++ x_after7 ++
  [ERead (skipn x_cutA2 x_stream11); EDispatch] ++ x_after100.
Definition x_tB : list elabel :=
  x_clients ++ [ERead x_stream11; EDispatch] ++ x_after101 ++ [EDispatch] ++ x_after7 ++ [EDispatch] ++ x_after100.
Definition x_tC : list elabel :=
  x_clients ++ map (fun x => ERead [x]) (firstn (length (enc_msg11 [x_r101])) x_stream11) ++ [EDispatch] ++ x_after101 ++
  map (fun x => ERead [x]) (firstn (length (enc_msg11 [x_n7])) (skipn (length (enc_msg11 [x_r101])) x_stream11)) ++ [EDispatch] ++ x_after7 ++
  map (fun x => ERead [x]) (skipn (length (enc_msg11 [x_r101]) + length (enc_msg11 [x_n7])) x_stream11) ++ [EDispatch] ++ x_after100.

Definition x_obs (t : list elabel) :=
  match erun cls (einit true true) t with
  | Some (s, ls) => Some (map (fun r => (r_st r, r_reply r)) (reqs (lts s)), filter is_msg ls, taken (lts s), pend s, pc (lts s),
                          beq (concat (reads t)) x_stream11)
  | None => None
  end.
Example E2E_ex_two_segmentations :
  x_obs x_tA = Some ([(CDone (OReply 100), Some 100); (CDone (OReply 101), Some 101)],
                     [LRecv 0 101; LRecv 2 7; LRecv 0 100], [7], [], WIdle, true) /\
  x_obs x_tB = x_obs x_tA /\ x_obs x_tC = x_obs x_tA /\
  stream_events true x_stream11 = [Deliver x_r101; Deliver x_n7; Deliver x_r100].
Proof. vm_compute. repeat split; reflexivity. Qed.

(* the trace cannot invent a message, nor let the worker write or read while a parse call is in progress *)
Example E2E_ex_refused :
  erun cls (einit true true) (x_clients ++ [EL (LRecv 0 100)]) = None /\
  erun cls (einit true true) (x_clients ++ [EDispatch]) = None /\
  erun cls (einit true true) (map EL [LReg 0 100; LChk 0 true; LPut 0; LReg 1 101; LChk 1 true; LPut 1; LDeq 0] ++
                              [ERead x_stream11; EL (LDeq 1)]) = None /\
  erun cls (einit true true) (x_clients ++ [ERead x_stream11; ERead [10]]) = None.
Proof. vm_compute. repeat split; reflexivity. Qed.

(* the quiescent worker: same final state for the three segmentations *)
Definition x_s0 : st := match run (init true) [LReg 0 100; LChk 0 true; LPut 0; LReg 1 101; LChk 1 true; LPut 1; LDeq 0; LDeq 1] with
                        | Some s => s | None => init true end.
Example E2E_ex_serve :
  let s := serve_stream cls x_s0 (pinit true) (reads x_tA) in
  map r_reply (reqs s) = [Some 100; Some 101] /\ nq s = [7] /\ pc s = WIdle /\ deliver_log s = [1%nat; 0%nat] /\
  serve_stream cls x_s0 (pinit true) (reads x_tC) = s /\ serve_stream cls x_s0 (pinit true) [x_stream11] = s.
Proof. vm_compute. repeat split; reflexivity. Qed.

(* loss, base 1.1: after the first reply the framing breaks ("\n#x"): NetconfFramingError (6) reaches the request
   still outstanding; the hypotheses of E2E_loss_fails_all hold and its conclusion is not vacuous *)
Definition x_bad11 : bytes := enc_msg11 [x_r101] ++ [10; 35; 120; 49; 10].
Definition x_tloss : list elabel :=
  x_clients ++ [ERead (firstn 30 x_bad11); ERead (skipn 30 x_bad11); EDispatch] ++ x_after101 ++
  [EDispatch] ++ map EL [LErrBcast 6; LTValues [100]; LTClear; LEvSetErr 0; LClose 0; LExit; LWaitRes 0 true].
Example E2E_ex_loss11 :
  match erun cls (einit true true) x_tloss with
  | Some (s, ls) => map r_st (reqs (lts s)) = [CDone (OExc 6); CDone (OReply 101)] /\ pc (lts s) = WExited /\
                    pend s = [] /\ wrote (lts s) = [0; 1]%nat /\ connected (lts s) = false /\
                    raised (stream_events true (concat (reads x_tloss))) = true /\ filter is_msg ls = [LRecv 0 101; LRaise 6]
  | None => False
  end.
Proof. vm_compute. repeat split; reflexivity. Qed.

(* loss, base 1.0: end-of-file INSIDE a message (and inside a 2-octet character): nothing of the partial message is
   delivered, both requests fail with SessionCloseError (1) *)
Definition x_part10 : bytes := firstn 40 x_r100 ++ [195].
Definition x_teof : list elabel :=
  x_clients ++ [ERead x_part10; ERead []] ++
  map EL [LErrBcast 1; LTValues [100; 101]; LTClear; LEvSetErr 0; LEvSetErr 1; LClose 0; LExit; LWaitRes 0 true; LWaitRes 1 true].
Example E2E_ex_eof10 :
  match erun cls (einit true false) x_teof with
  | Some (s, ls) => map r_st (reqs (lts s)) = [CDone (OExc 1); CDone (OExc 1)] /\ pc (lts s) = WExited /\
                    saw_eof x_teof = true /\ filter is_msg ls = [] /\ stream_events false (concat (reads x_teof)) = []
  | None => False
  end.
Proof. vm_compute. repeat split; reflexivity. Qed.

(* base 1.0, two messages and the beginning of a third in one read, the delimiter of the second cut ("]]>]" | "]>") *)
Definition x_stream10 : bytes := enc10 [x_n7; x_r100].
Example E2E_ex_10 :
  match erun cls (einit false false)
          (map EL [LReg 0 100; LChk 0 true; LPut 0; LDeq 0] ++
           [ERead (firstn (length x_stream10 - 2) x_stream10); EDispatch; EL (LNqPut 7);
            ERead (skipn (length x_stream10 - 2) x_stream10); EDispatch] ++
           map EL [LTGet 100 true; LEvSetReply 0; LTDel 100; LWaitRes 0 true]) with
  | Some (s, ls) => map r_st (reqs (lts s)) = [CDone (OReply 100)] /\ nq (lts s) = [7] /\
                    filter is_msg ls = [LRecv 2 7; LRecv 0 100]
  | None => False
  end.
Proof. vm_compute. repeat split; reflexivity. Qed.
