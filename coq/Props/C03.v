From NC Require Import Model.Base Model.SessionLTS.
