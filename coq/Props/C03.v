(* Props/C03.v — each request receives exactly its own reply.
   Model: Model/SessionLTS.v (one label = one shared-state effect of the real threads).
   [reach s] = s is the result of ANY label sequence accepted from the initial state: any number of
   client threads and requests, any interleaving, any server messages, any fault. *)
From NC Require Import Model.Base Model.SessionLTS Proofs.SessionLTSProofs.

(* A stored reply carries the request's own message-id ... *)
Theorem C03_own_reply : forall s rid r i,
  reach s -> rq s rid = Some r -> r_reply r = Some i -> i = r_id r.
Proof. exact c03_own_reply. Qed.
Print Assumptions C03_own_reply.

(* ... and so does the reply a completed (synchronous or awaited asynchronous) call returned. *)
Theorem C03_outcome_own : forall s rid r i,
  reach s -> rq s rid = Some r -> r_st r = CDone (OReply i) -> i = r_id r.
Proof. exact c03_outcome_own. Qed.
Print Assumptions C03_outcome_own.

(* Replies are never invented: a stored reply's id is the id of an inbound message the reply listener looked up. *)
Theorem C03_reply_was_received : forall s rid r i,
  reach s -> rq s rid = Some r -> r_reply r = Some i -> In i (rlog s).
Proof. exact c03_reply_was_received. Qed.
Print Assumptions C03_reply_was_received.

(* Message-ids of one session are pairwise distinct (under the fresh-id oracle = uuid4: a trace that
   re-uses an id is not accepted by [step]). *)
Theorem C03_unique_ids : forall s, reach s -> NoDup (map r_id (reqs s)).
Proof. exact c03_unique_ids. Qed.
Print Assumptions C03_unique_ids.

(* No request is delivered a reply twice. *)
Theorem C03_at_most_once : forall s, reach s -> NoDup (deliver_log s).
Proof. exact c03_at_most_once. Qed.
Print Assumptions C03_at_most_once.

(* Delivery goes to the request registered under the reply's message-id, and to nothing else. *)
Theorem C03_deliver_by_id : forall s rid s',
  reach s -> step s (LEvSetReply rid) = Some s' ->
  exists id r, pc s = WDeliver rid id /\ tget id (table s) = Some rid /\ rq s rid = Some r /\ r_id r = id /\
               rq s' rid = Some (set_reply id r).
Proof. exact c03_deliver_by_id. Qed.
Print Assumptions C03_deliver_by_id.

(* A reply (in particular one arriving after its request timed out) changes only that request's record:
   the session stays as connected as it was, queues and every other request are untouched ... *)
Theorem C03_late_reply_frame : forall s rid s',
  step s (LEvSetReply rid) = Some s' ->
  connected s' = connected s /\ closing s' = closing s /\ table s' = table s /\ nq s' = nq s /\ outq s' = outq s /\
  (forall rid', rid' <> rid -> rq s' rid' = rq s rid').
Proof. exact c03_deliver_frame. Qed.
Print Assumptions C03_late_reply_frame.

(* ... and removing its table entry touches no other entry. *)
Theorem C03_delete_frame : forall s id s',
  step s (LTDel id) = Some s' ->
  connected s' = connected s /\ reqs s' = reqs s /\ nq s' = nq s /\ pc s' = WIdle /\
  (forall k, k <> id -> tget k (table s') = tget k (table s)).
Proof. exact c03_delete_frame. Qed.
Print Assumptions C03_delete_frame.

(* Messages whose root is not rpc-reply are ignored by the reply listener of a tag-checking profile. *)
Theorem C03_nonreply_ignored : forall s kind arg s',
  qualify s = true -> (kind = 3 \/ kind = 4) -> step s (LRecv kind arg) = Some s' -> s' = s.
Proof. exact c03_nonreply_ignored. Qed.
Print Assumptions C03_nonreply_ignored.

(* Non-vacuity: two requests pipelined, replies in reverse order with a notification in between, the first
   request timed out before its (late) reply arrived; the trace is accepted and each holds its own reply. *)
Definition ex_trace : list label :=
  [ LReg 0 100; LChk 0 true; LPut 0; LReg 1 101; LChk 1 true; LPut 1; LDeq 0; LDeq 1;
    LWaitRes 0 false;                                   (* request 0 times out *)
    LRecv 2 7; LNqPut 7;
    LRecv 0 101; LTGet 101 true; LEvSetReply 1; LTDel 101; LWaitRes 1 true;
    LRecv 0 100; LTGet 100 true; LEvSetReply 0; LTDel 100 ].   (* late reply for request 0 *)

Example C03_ex_accepted :
  match run (init true) ex_trace with
  | Some s => map (fun r => (r_st r, r_reply r)) (reqs s)
              = [ (CDone (OExc 4), Some 100); (CDone (OReply 101), Some 101) ]
              /\ connected s = true /\ table s = [] /\ deliver_log s = [1%nat; 0%nat]
  | None => False
  end.
Proof. vm_compute. repeat split; reflexivity. Qed.

(* a reply for an id nobody registered is not delivered: the lookup must report "not found" *)
Example C03_ex_unknown_id_rejected :
  run (init true) [LReg 0 100; LRecv 0 7; LTGet 7 true] = None.
Proof. vm_compute. reflexivity. Qed.
