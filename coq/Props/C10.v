(* Props/C10.v — property C10: reply content reaches the caller unaltered (partial: libxml2 /
   libxslt are oracles; see notes/C10.md).
   Models: Model/ReplyView.v, Model/NsStrip.v.  Spec: Spec/ReplySpec.v. *)
From NC Require Import Model.Base Model.XTree Model.XmlHelpers Model.NsStrip Model.ReplyView Spec.ReplySpec Proofs.ReplyProofs.

(* The object handed to the caller (RPCReply, or the NCElement's reply) carries exactly the
   delivered text, and was parsed with the call's huge_tree flag - for every parser behaviour. *)
Theorem C10_raw : forall P Q Q2 p cls mgr forced rk raw r,
  (exists root d, fst (request P Q Q2 p cls mgr forced rk raw) = OReply r root d) \/
  (exists doc, fst (request P Q Q2 p cls mgr forced rk raw) = OElem r doc) ->
  reply_xml r = raw /\ r_huge r = call_flag mgr forced.
Proof. exact c10_raw. Qed.
Print Assumptions C10_raw.

(* data_ele is the first {base}data child exactly when the reply carries no errors. *)
Theorem C10_data : forall root d,
  data_of ClsGet root = DEle d <->
  has_errors root = false /\ first_named n_data (children root) d.
Proof. exact c10_data. Qed.
Print Assumptions C10_data.

Theorem C10_data_none : forall root,
  data_of ClsGet root = DNone <-> has_errors root = true \/ no_child n_data (children root).
Proof. exact c10_data_none. Qed.
Print Assumptions C10_data_none.

(* get-schema: the text of the first {monitoring}data child *)
Theorem C10_schema_data : forall root s,
  data_of ClsSchema root = DText s <->
  has_errors root = false /\ exists d, first_named n_sdata (children root) d /\ s = lead_text d.
Proof. exact c10_schema_data. Qed.
Print Assumptions C10_schema_data.

Theorem C10_errors_rule : forall root,
  has_errors root = true <-> (no_child n_ok (children root) /\ has_desc n_err root = true).
Proof. exact c10_errors_rule. Qed.
Print Assumptions C10_errors_rule.

(* Junos: after the stylesheet, the tree differs from the reply only by namespaces and
   white-space-only text - provided no element has two attributes with one local name. *)
Theorem C10_strip_shape : forall t,
  locals_distinct t -> erase_ns (strip t) = drop_blank (erase_ns t).
Proof. exact c10_strip_shape. Qed.
Print Assumptions C10_strip_shape.

(* the same with the two remove_blank_text parsers as arbitrary oracles that drop only blank text *)
Theorem C10_strip_shape_oracle : forall rb1 rb2 t,
  blank_only_removed rb1 -> blank_only_removed rb2 -> locals_distinct (rb1 t) ->
  drop_blank (erase_ns (strip_with rb1 rb2 t)) = drop_blank (erase_ns t).
Proof. exact c10_strip_shape_oracle. Qed.
Print Assumptions C10_strip_shape_oracle.

(* F16: the hypothesis is necessary - a:x="1" b:x="2" becomes x="2" (one attribute value is lost). *)
Theorem C10_strip_collision_refuted :
  exists t, ~ locals_distinct t /\ erase_ns (strip t) <> drop_blank (erase_ns t).
Proof. exact c10_strip_collision_refuted. Qed.
Print Assumptions C10_strip_collision_refuted.

(* ALU: only element namespaces go; attributes (names and values), text, comments, order stay. *)
Theorem C10_alu_shape : forall t, erase_ns (alu t) = erase_ns t /\ root_attrs (alu t) = root_attrs t.
Proof. exact c10_alu_shape. Qed.
Print Assumptions C10_alu_shape.

Theorem C10_sros_id : forall t, sros t = t.
Proof. exact c10_sros_id. Qed.
Print Assumptions C10_sros_id.

(* Every full-document parse site on the path of one call uses that call's flag ... *)
Theorem C10_huge_plumbing : forall P Q Q2 p cls mgr forced rk raw s fl,
  In (s, fl) (snd (request P Q Q2 p cls mgr forced rk raw)) -> fl = call_flag mgr forced.
Proof. exact c10_huge_plumbing. Qed.
Print Assumptions C10_huge_plumbing.

(* ... hence a reply the huge parsers accept never fails to parse when huge_tree is enabled for the call. *)
Theorem C10_huge_success : forall P Q Q2 p cls mgr forced rk raw,
  call_flag mgr forced = true ->
  P true raw <> None -> Q true raw <> None -> (forall x, Q2 true x <> None) ->
  fst (request P Q Q2 p cls mgr forced rk raw) <> OParseError.
Proof. exact c10_huge_success. Qed.
Print Assumptions C10_huge_success.

(* ---------------- non-vacuity ---------------- *)
Definition nm (u l : bytes) : name := (Some u, l).
Definition ex_data : xnode :=
  Elem n_data [((None, [120]), [49])] [Text [32]; Elem (nm [117] [99]) [((Some [118], [97]), [50])] [Text [104; 105]]; Comment [99]].
Definition ex_reply : xnode :=
  Elem (Some BASE_NS, [114]) [] [Text [10]; Elem (nm [117] s_data) [] []; ex_data; Elem n_data [] []].

Example C10_ex_data : data_of ClsGet ex_reply = DEle ex_data.
Proof. vm_compute. reflexivity. Qed.

Example C10_ex_errors :
  data_of ClsGet (Elem (Some BASE_NS, [114]) [] [Elem (nm [117] [120]) [] [Elem n_err [] []]; ex_data]) = DNone.
Proof. vm_compute. reflexivity. Qed.

Example C10_ex_strip :
  locals_distinct ex_reply /\
  strip ex_reply =
  Elem (None, [114]) [] [Elem (None, s_data) [] [];
                         Elem (None, s_data) [((None, [120]), [49])] [Elem (None, [99]) [((None, [97]), [50])] [Text [104; 105]]; Comment [99]];
                         Elem (None, s_data) [] []].
Proof.
  split; [|vm_compute; reflexivity].
  repeat (cbn [locals_distinct map fst snd ex_reply ex_data]; repeat split; repeat constructor; simpl; try tauto).
Qed.

Example C10_ex_plumbing :
  snd (request (fun _ _ => Some ex_reply) (fun _ _ => Some ex_reply) (fun _ x => Some x) PJunos ClsGet false true RNone [])
  = [(SReplyParse, true); (SXsltSheet, true); (SXsltInput, true); (SXsltOutput, true)].
Proof. vm_compute. reflexivity. Qed.

Example C10_ex_parser_limits :
  (* a parser that rejects the reply unless huge_tree is on: the call succeeds iff the flag is on *)
  let P := fun (h : bool) (_ : bytes) => if h then Some ex_reply else None in
  fst (request P P (fun _ x => Some x) PJunos ClsGet true false RNone []) <> OParseError /\
  fst (request P P (fun _ x => Some x) PJunos ClsGet false false RNone []) = OParseError.
Proof. vm_compute. split; [discriminate|reflexivity]. Qed.
