(* Props/C10.v — property C10: reply content reaches the caller unaltered (partial: libxml2 /
   libxslt are oracles; see notes/C10.md).
   Models: Model/ReplyView.v, Model/NsStrip.v.  Spec: Spec/ReplySpec.v. *)
From NC Require Import Model.Base Model.XTree Model.XmlHelpers Model.NsStrip Model.ReplyView Spec.ReplySpec Proofs.ReplyProofs.
From NC Require Import Model.ReplyLife Spec.ReplyLifeSpec Proofs.ReplyLifeProofs.

(* The object handed to the caller (RPCReply, or the NCElement's reply) carries exactly the
   delivered text, and was parsed with the call's huge_tree flag - for every parser behaviour. *)
Theorem C10_raw : forall P Q Q2 p cls mgr forced rk raw r,
  (exists root d, fst (request P Q Q2 p cls mgr forced rk raw) = OReply r root d) \/
  (exists doc, fst (request P Q Q2 p cls mgr forced rk raw) = OElem r doc) ->
  reply_xml r = raw /\ r_huge r = call_flag mgr forced.
Proof. exact c10_raw. Qed.
Print Assumptions C10_raw.

(* data_ele is the first {base}data child exactly when the reply carries no errors. *)
Theorem C10_data : forall root d,
  data_of ClsGet root = DEle d <->
  has_errors root = false /\ first_named n_data (children root) d.
Proof. exact c10_data. Qed.
Print Assumptions C10_data.

Theorem C10_data_none : forall root,
  data_of ClsGet root = DNone <-> has_errors root = true \/ no_child n_data (children root).
Proof. exact c10_data_none. Qed.
Print Assumptions C10_data_none.

(* get-schema: the text of the first {monitoring}data child *)
Theorem C10_schema_data : forall root s,
  data_of ClsSchema root = DText s <->
  has_errors root = false /\ exists d, first_named n_sdata (children root) d /\ s = lead_text d.
Proof. exact c10_schema_data. Qed.
Print Assumptions C10_schema_data.

Theorem C10_errors_rule : forall root,
  has_errors root = true <-> (no_child n_ok (children root) /\ has_desc n_err root = true).
Proof. exact c10_errors_rule. Qed.
Print Assumptions C10_errors_rule.

(* Junos: after the stylesheet, the tree differs from the reply only by namespaces and
   white-space-only text - provided no element has two attributes with one local name. *)
Theorem C10_strip_shape : forall t,
  locals_distinct t -> erase_ns (strip t) = drop_blank (erase_ns t).
Proof. exact c10_strip_shape. Qed.
Print Assumptions C10_strip_shape.

(* the same with the two remove_blank_text parsers as arbitrary oracles that drop only blank text *)
Theorem C10_strip_shape_oracle : forall rb1 rb2 t,
  blank_only_removed rb1 -> blank_only_removed rb2 -> locals_distinct (rb1 t) ->
  drop_blank (erase_ns (strip_with rb1 rb2 t)) = drop_blank (erase_ns t).
Proof. exact c10_strip_shape_oracle. Qed.
Print Assumptions C10_strip_shape_oracle.

(* F16: the hypothesis is necessary - a:x="1" b:x="2" becomes x="2" (one attribute value is lost). *)
Theorem C10_strip_collision_refuted :
  exists t, ~ locals_distinct t /\ erase_ns (strip t) <> drop_blank (erase_ns t).
Proof. exact c10_strip_collision_refuted. Qed.
Print Assumptions C10_strip_collision_refuted.

(* ALU: only element namespaces go; attributes (names and values), text, comments, order stay. *)
Theorem C10_alu_shape : forall t, erase_ns (alu t) = erase_ns t /\ root_attrs (alu t) = root_attrs t.
Proof. exact c10_alu_shape. Qed.
Print Assumptions C10_alu_shape.

Theorem C10_sros_id : forall t, sros t = t.
Proof. exact c10_sros_id. Qed.
Print Assumptions C10_sros_id.

(* Every full-document parse site on the path of one call uses that call's flag ... *)
Theorem C10_huge_plumbing : forall P Q Q2 p cls mgr forced rk raw s fl,
  In (s, fl) (snd (request P Q Q2 p cls mgr forced rk raw)) -> fl = call_flag mgr forced.
Proof. exact c10_huge_plumbing. Qed.
Print Assumptions C10_huge_plumbing.

(* ... hence a reply the huge parsers accept never fails to parse when huge_tree is enabled for the call. *)
Theorem C10_huge_success : forall P Q Q2 p cls mgr forced rk raw,
  call_flag mgr forced = true ->
  P true raw <> None -> Q true raw <> None -> (forall x, Q2 true x <> None) ->
  fst (request P Q Q2 p cls mgr forced rk raw) <> OParseError.
Proof. exact c10_huge_success. Qed.
Print Assumptions C10_huge_success.

(* ---------------- histories: the RPC object between request() and the delivery of its reply ----------------
   One Manager, any number of requests in flight (synchronous, waiting for another thread to deliver, or
   asynchronous), the Manager's settings changed in between, replies arriving in any order, stray messages
   repeating an id: the reply object of the call (id, cls, forced) is built from exactly the message that
   carried its id, with the class of its operation, and with the flag the call was made with (the Manager's
   flag when the call was made, or forced by the operation) - last overwritten only by the caller's own
   writes to rpc.huge_tree before the delivery. *)
Theorem C10_life_reply : forall w pre id cls forced mid raw post,
  none_of (calls id) (mid ++ post) -> none_of (delivers id) mid ->
  reply_of id (run_hist w (pre ++ ECall id cls forced :: mid ++ EDeliver id raw :: post)) =
  Some (mkReply cls raw (rpc_huge_after id (call_flag (mgr_huge_after (w_huge w) pre) forced) mid)).
Proof. exact c10_life_reply. Qed.
Print Assumptions C10_life_reply.

(* ... so, when the caller does not touch the object, whatever else happens on the Manager and the session *)
Theorem C10_life_flag : forall w pre id cls forced mid raw post r,
  none_of (calls id) (mid ++ post) -> none_of (delivers id) mid -> none_of (sets id) mid ->
  reply_of id (run_hist w (pre ++ ECall id cls forced :: mid ++ EDeliver id raw :: post)) = Some r ->
  reply_xml r = raw /\ r_cls r = cls /\ r_huge r = call_flag (mgr_huge_after (w_huge w) pre) forced.
Proof. exact c10_life_flag. Qed.
Print Assumptions C10_life_flag.

(* the synchronous call of C10_raw / C10_huge_plumbing / C10_huge_success is the history in which the caller
   waits: whatever the other threads do between its send and its delivery, it returns what `request` returns
   for the Manager's flag at the time of the call *)
Theorem C10_life_sync : forall P Q Q2 p rk w pre id cls forced mid raw,
  none_of (calls id) mid -> none_of (delivers id) mid -> none_of (sets id) mid ->
  finish P Q Q2 p rk id (run_hist w (pre ++ ECall id cls forced :: mid ++ [EDeliver id raw])) =
  Some (request P Q Q2 p cls (mgr_huge_after (w_huge w) pre) forced rk raw).
Proof. exact c10_life_sync. Qed.
Print Assumptions C10_life_sync.

(* the asynchronous caller reading rpc.reply at any later time: the text, the class, every parse site on the
   call's flag, and no parse error when the flag is on and the huge parser accepts the message *)
Theorem C10_life_async : forall P p w pre id cls forced mid raw post,
  none_of (calls id) (mid ++ post) -> none_of (delivers id) mid -> none_of (sets id) mid ->
  let f := call_flag (mgr_huge_after (w_huge w) pre) forced in
  exists r, reply_of id (run_hist w (pre ++ ECall id cls forced :: mid ++ EDeliver id raw :: post)) = Some r /\
            reply_xml r = raw /\ r_cls r = cls /\
            (forall s fl, In (s, fl) (snd (async_read P p r)) -> fl = f) /\
            (f = true -> P true raw <> None -> fst (async_read P p r) <> OParseError).
Proof. exact c10_life_async. Qed.
Print Assumptions C10_life_async.

(* what the asynchronous caller sees is the parse of that text and the data view of C10_data / C10_schema_data *)
Theorem C10_async_view : forall P p r r' root d,
  fst (async_read P p r) = OReply r' root d ->
  r' = r /\ P (r_huge r) (r_raw r) = Some root /\ d = hook p (r_cls r) root /\ d <> DAttrErr.
Proof. exact c10_async_view. Qed.
Print Assumptions C10_async_view.

(* the same question again on the same Manager (round 7): two calls of one class answered with the same text under the same
   call flag - the second anywhere after, before or inside the first (pre2 may contain the whole first call and any number
   of others), or in another history - hand the caller the same result: outcome, data view (the Junos get-schema repair
   included), transformed tree and parse sites.  The model has no state from which a reply could tell it is not the first. *)
Theorem C10_life_repeat_sync : forall P Q Q2 p rk w cls forced raw pre1 id1 mid1 pre2 id2 mid2,
  none_of (calls id1) mid1 -> none_of (delivers id1) mid1 -> none_of (sets id1) mid1 ->
  none_of (calls id2) mid2 -> none_of (delivers id2) mid2 -> none_of (sets id2) mid2 ->
  call_flag (mgr_huge_after (w_huge w) pre1) forced = call_flag (mgr_huge_after (w_huge w) pre2) forced ->
  finish P Q Q2 p rk id1 (run_hist w (pre1 ++ ECall id1 cls forced :: mid1 ++ [EDeliver id1 raw])) =
  finish P Q Q2 p rk id2 (run_hist w (pre2 ++ ECall id2 cls forced :: mid2 ++ [EDeliver id2 raw])).
Proof. exact c10_life_repeat_sync. Qed.
Print Assumptions C10_life_repeat_sync.

Theorem C10_life_repeat_async : forall P p w cls forced raw pre1 id1 mid1 post1 pre2 id2 mid2 post2,
  none_of (calls id1) (mid1 ++ post1) -> none_of (delivers id1) mid1 -> none_of (sets id1) mid1 ->
  none_of (calls id2) (mid2 ++ post2) -> none_of (delivers id2) mid2 -> none_of (sets id2) mid2 ->
  call_flag (mgr_huge_after (w_huge w) pre1) forced = call_flag (mgr_huge_after (w_huge w) pre2) forced ->
  exists r, reply_of id1 (run_hist w (pre1 ++ ECall id1 cls forced :: mid1 ++ EDeliver id1 raw :: post1)) = Some r /\
            reply_of id2 (run_hist w (pre2 ++ ECall id2 cls forced :: mid2 ++ EDeliver id2 raw :: post2)) = Some r /\
            async_read P p r = async_read P p (mkReply cls raw (call_flag (mgr_huge_after (w_huge w) pre1) forced)).
Proof. exact c10_life_repeat_async. Qed.
Print Assumptions C10_life_repeat_async.

(* ---------------- non-vacuity ---------------- *)
Definition nm (u l : bytes) : name := (Some u, l).
Definition ex_data : xnode :=
  Elem n_data [((None, [120]), [49])] [Text [32]; Elem (nm [117] [99]) [((Some [118], [97]), [50])] [Text [104; 105]]; Comment [99]].
Definition ex_reply : xnode :=
  Elem (Some BASE_NS, [114]) [] [Text [10]; Elem (nm [117] s_data) [] []; ex_data; Elem n_data [] []].

Example C10_ex_data : data_of ClsGet ex_reply = DEle ex_data.
Proof. vm_compute. reflexivity. Qed.

Example C10_ex_errors :
  data_of ClsGet (Elem (Some BASE_NS, [114]) [] [Elem (nm [117] [120]) [] [Elem n_err [] []]; ex_data]) = DNone.
Proof. vm_compute. reflexivity. Qed.

Example C10_ex_strip :
  locals_distinct ex_reply /\
  strip ex_reply =
  Elem (None, [114]) [] [Elem (None, s_data) [] [];
                         Elem (None, s_data) [((None, [120]), [49])] [Elem (None, [99]) [((None, [97]), [50])] [Text [104; 105]]; Comment [99]];
                         Elem (None, s_data) [] []].
Proof.
  split; [|vm_compute; reflexivity].
  repeat (cbn [locals_distinct map fst snd ex_reply ex_data]; repeat split; repeat constructor; simpl; try tauto).
Qed.

Example C10_ex_plumbing :
  snd (request (fun _ _ => Some ex_reply) (fun _ _ => Some ex_reply) (fun _ x => Some x) PJunos ClsGet false true RNone [])
  = [(SReplyParse, true); (SXsltSheet, true); (SXsltInput, true); (SXsltOutput, true)].
Proof. vm_compute. reflexivity. Qed.

Example C10_ex_parser_limits :
  (* a parser that rejects the reply unless huge_tree is on: the call succeeds iff the flag is on *)
  let P := fun (h : bool) (_ : bytes) => if h then Some ex_reply else None in
  fst (request P P (fun _ x => Some x) PJunos ClsGet true false RNone []) <> OParseError /\
  fst (request P P (fun _ x => Some x) PJunos ClsGet false false RNone []) = OParseError.
Proof. vm_compute. split; [discriminate|reflexivity]. Qed.

(* an asynchronous get-schema (forced flag) on a Manager with huge_tree off, a get issued and answered, the
   Manager's flag switched on, a stray second message for the first id: each object keeps its own message,
   class and flag; a parser that needs the flag accepts the schema and would reject it without the flag *)
Definition ex_hist : list event :=
  [ESetMgrAsync true; ECall 7 ClsSchema true; ECall 8 ClsGet false; EDeliver 8 [2]; ESetMgrHuge true;
   ECall 9 ClsGet false; EDeliver 7 [1]; EDeliver 9 [3]; EDeliver 7 [4]].
Example C10_ex_life :
  let w := run_hist (world0 false false) ex_hist in
  reply_of 7 w = Some (mkReply ClsSchema [1] true) /\ reply_of 8 w = Some (mkReply ClsGet [2] false) /\
  reply_of 9 w = Some (mkReply ClsGet [3] true) /\
  (let P := fun (h : bool) (_ : bytes) => if h then Some ex_reply else None in
   fst (async_read P PDefault (mkReply ClsSchema [1] true)) <> OParseError /\
   fst (async_read P PDefault (mkReply ClsSchema [1] false)) = OParseError).
Proof. vm_compute. repeat split; try reflexivity; discriminate. Qed.

Example C10_ex_life_hyps :
  (* the hypotheses of C10_life_flag on that history, for the get-schema call *)
  ex_hist = [ESetMgrAsync true] ++ ECall 7 ClsSchema true :: [ECall 8 ClsGet false; EDeliver 8 [2]; ESetMgrHuge true; ECall 9 ClsGet false]
            ++ EDeliver 7 [1] :: [EDeliver 9 [3]; EDeliver 7 [4]] /\
  none_of (calls 7) ([ECall 8 ClsGet false; EDeliver 8 [2]; ESetMgrHuge true; ECall 9 ClsGet false] ++ [EDeliver 9 [3]; EDeliver 7 [4]]) /\
  none_of (delivers 7) [ECall 8 ClsGet false; EDeliver 8 [2]; ESetMgrHuge true; ECall 9 ClsGet false] /\
  none_of (sets 7) [ECall 8 ClsGet false; EDeliver 8 [2]; ESetMgrHuge true; ECall 9 ClsGet false].
Proof.
  split; [reflexivity|]. repeat split; intros e H; cbn [In app] in H;
    repeat (destruct H as [<-|H]; [reflexivity|]); destruct H.
Qed.

Example C10_ex_life_sync :
  (* a synchronous Junos get whose reply is delivered after another call's: sites as in C10_ex_plumbing *)
  option_map snd (finish (fun _ _ => Some ex_reply) (fun _ _ => Some ex_reply) (fun _ x => Some x) PJunos RNone 8
                         (run_hist (world0 true false) [ECall 7 ClsSchema true; ECall 8 ClsGet false; EDeliver 7 [1]; EDeliver 8 [2]]))
  = Some [(SReplyParse, true); (SXsltSheet, true); (SXsltInput, true); (SXsltOutput, true)].
Proof. vm_compute. reflexivity. Qed.

(* three Junos get-schema calls on one Manager, each answered with <data> in the BASE namespace (what Junos sends): the
   profile's repair serves the third as it served the first - the schema text, not an AttributeError *)
Definition ex_junos_schema : xnode := Elem n_reply [] [Elem n_data [] [Text [109]]].
Example C10_ex_repeat :
  let P := fun (_ : bool) (_ : bytes) => Some ex_junos_schema in
  let h1 := [ECall 1 ClsSchema true; EDeliver 1 [5]] in
  let h3 := h1 ++ [ECall 2 ClsSchema true; EDeliver 2 [5]; ESetMgrHuge true; ECall 3 ClsSchema true; EDeliver 3 [5]] in
  data_of ClsSchema ex_junos_schema = DAttrErr /\
  option_map fst (finish P P (fun _ x => Some x) PJunos RNone 1 (run_hist (world0 false false) h1)) =
  option_map fst (finish P P (fun _ x => Some x) PJunos RNone 3 (run_hist (world0 false false) h3)) /\
  fst (async_read P PJunos (mkReply ClsSchema [5] true)) = OReply (mkReply ClsSchema [5] true) ex_junos_schema (DText (Some [109])).
Proof. vm_compute. repeat split. Qed.
