(* Props/C09.v — property C09: capability-gated operations are refused locally when the
   capability is absent, and sent when it is present.
   Model: Model/Gating.v (operations/{rpc,edit,retrieve,subscribe,flowmon,util}.py, junos/sros commit).
   Spec:  Spec/GatingSpec.v  (advertised, needs = "documented dependency -> capability",
          wellformed, wd_accepts) on top of C08's Spec/CapsSpec.v.
   Quantification: ALL capability lists [uris] (both URN forms via C08's lookup theorems),
   ALL calls and argument records [c] (standard classes and the junos/sros commit). *)
From Coq Require Import String.
From NC Require Import Model.Base Model.Lit Model.Caps Model.Xml Model.Gating.
From NC Require Import Spec.CapsSpec Spec.GatingSpec Proofs.BaseFacts Proofs.CapsProofs Proofs.GatingProofs.

(* A documented dependency of the call is not advertised: the call raises, nothing is sent;
   and unless an argument is refused for another local reason first, what it raises is
   MissingCapabilityError. *)
Theorem C09_refused : forall (uris : list bytes) (c : call) (k : bytes),
  In k (needs c) -> ~ advertised uris k ->
  exists e, snd (perform (SCaps (caps_of uris)) c) = Exn e
            /\ count_send (fst (perform (SCaps (caps_of uris)) c)) = 0%nat
            /\ (wellformed c = true -> e = MissingCapability).
Proof. exact c09_refused. Qed.
Print Assumptions C09_refused.

(* A class-level dependency (DEPENDS) is checked before the request is registered with the
   reply listener: a refused construction leaves nothing behind. *)
Theorem C09_class_unregistered : forall (uris : list bytes) (c : call) (k : bytes),
  In k (class_deps c) -> ~ advertised uris k ->
  snd (perform (SCaps (caps_of uris)) c) = Exn MissingCapability
  /\ ~ In EvRegister (fst (perform (SCaps (caps_of uris)) c)).
Proof. exact c09_class_unregistered. Qed.
Print Assumptions C09_class_unregistered.

(* All capabilities present but the requested with-defaults mode is not one the server lists
   (or its URI has no basic-mode): WithDefaultsError, nothing sent. *)
Theorem C09_wd_refused : forall (uris : list bytes) (c : call) (norm : bytes),
  wellformed c = true -> (forall k, In k (needs c) -> advertised uris k) ->
  wd_of c = Some norm -> ~ wd_accepts uris norm ->
  snd (perform (SCaps (caps_of uris)) c) = Exn WithDefaultsError
  /\ count_send (fst (perform (SCaps (caps_of uris)) c)) = 0%nat.
Proof. exact c09_wd_refused. Qed.
Print Assumptions C09_wd_refused.

(* Every documented dependency advertised (and the mode listed): the request is sent, once. *)
Theorem C09_allowed : forall (uris : list bytes) (c : call),
  wellformed c = true -> (forall k, In k (needs c) -> advertised uris k) ->
  (forall norm, wd_of c = Some norm -> wd_accepts uris norm /\ xml_chars_ok norm = true) ->
  snd (perform (SCaps (caps_of uris)) c) = Sent
  /\ count_send (fst (perform (SCaps (caps_of uris)) c)) = 1%nat.
Proof. exact c09_allowed. Qed.
Print Assumptions C09_allowed.

(* Whatever the session (even one without server capabilities) and the call: an exception
   means no send; a sent request means exactly one send. *)
Theorem C09_send_once : forall (s : sess) (c : call),
  match snd (perform s c) with
  | Sent => count_send (fst (perform s c)) = 1%nat
  | Exn _ => count_send (fst (perform s c)) = 0%nat
  end.
Proof. exact c09_send_once. Qed.
Print Assumptions C09_send_once.

(* The modes consulted are those of RFC 6243 4.3 read from the first advertised
   with-defaults URI (either URN form): basic-mode's value and the comma-separated
   also-supported values of its well-formed, last-wins query parameters. *)
Theorem C09_wd_modes : forall (uris : list bytes) (w ns pstr : bytes) (more : list bytes),
  ~ In s_k_wd uris -> first_shorthand s_k_wd uris w ->
  split_on QMARK w = ns :: pstr :: more ->
  exists cap, getitem (caps_of uris) s_k_wd = Ok cap /\
              modes_of cap = spec_modes (valid_pairs (split_on AMP pstr)).
Proof. exact c09_wd_modes. Qed.
Print Assumptions C09_wd_modes.

(* The converse reading, on what reached the wire: a request that was sent carries no capability-dependent construct
   (RFC 6241 8.3-8.8, RFC 6243, RFC 5277: GatingSpec.wire_needs) whose capability the server did not advertise —
   whatever the call, its optional arguments (timeout / persist / persist_id given alone, …) and the vendor override of
   commit.  [wire_of] reads the same branches of request() as the checks, for what they emit. *)
Theorem C09_wire_backed : forall (uris : list bytes) (c : call) (w : wire) (k : bytes),
  snd (perform (SCaps (caps_of uris)) c) = Sent -> In w (wire_of c) -> In k (wire_needs w) -> advertised uris k.
Proof. exact c09_wire_backed. Qed.
Print Assumptions C09_wire_backed.

(* ... and the with-defaults mode it carries is one of the modes the server lists. *)
Theorem C09_sent_mode : forall (uris : list bytes) (c : call) (norm : bytes),
  snd (perform (SCaps (caps_of uris)) c) = Sent -> wd_of c = Some norm -> wd_accepts uris norm.
Proof. exact c09_sent_mode. Qed.
Print Assumptions C09_sent_mode.

(* ---------------- non-vacuity ---------------- *)
Definition ex_uris : list bytes :=
  [ lit "urn:ietf:params:netconf:base:1.1"%string;
    lit "urn:ietf:params:netconf:capability:candidate:1.0"%string;                       (* form A *)
    lit "urn:ietf:params:xml:ns:netconf:capability:url:1.0?scheme=http,ftp"%string;      (* form B *)
    lit "urn:ietf:params:xml:ns:netconf:capability:with-defaults:1.0?basic-mode=explicit&also-supported=report-all,trim"%string ].
Definition S_ex := SCaps (caps_of ex_uris).
Definition ok_ds (s : string) : dsarg := DsStr (lit s) true.

(* hypotheses of C09_refused hold: confirmed commit needs :confirmed-commit, not advertised *)
Example C09_ex_refused_hyp :
  In s_k_confirmed (needs (CCommit VStd true false false false None None)) /\ ~ advertised ex_uris s_k_confirmed
  /\ wellformed (CCommit VStd true false false false None None) = true.
Proof. split; [simpl; auto|]. split; [apply absent_iff; vm_compute; reflexivity|reflexivity]. Qed.

Example C09_ex_refused :
  perform S_ex (CCommit VJunos true false false false None None)
  = ([EvAssert s_k_candidate; EvRegister; EvAssert s_k_confirmed], Exn MissingCapability).
Proof. vm_compute. reflexivity. Qed.

Example C09_ex_class_refused :
  perform S_ex (CValidate (SrcDs (ok_ds "candidate"))) = ([EvAssert s_k_validate], Exn MissingCapability).
Proof. vm_compute. reflexivity. Qed.

(* hypotheses of C09_allowed hold on a call with three dependencies (both URN forms) *)
Example C09_ex_allowed_hyp :
  let c := CGetConfig (ok_ds "http://h/x") None (Some (lit "trim"%string)) in
  wellformed c = true /\ needs c = [s_k_url; s_k_wd]
  /\ (forall k, In k (needs c) -> advertised ex_uris k)
  /\ wd_accepts ex_uris (lit "trim"%string).
Proof.
  cbv zeta. split; [reflexivity|]. split; [vm_compute; reflexivity|]. split.
  - intros k Hk. apply present_iff. vm_compute in Hk.
    destruct Hk as [<-|[<-|[]]]; vm_compute; reflexivity.
  - apply wd_accepts_iff. vm_compute. eexists; eexists. split; [reflexivity|]. split; reflexivity.
Qed.

Example C09_ex_allowed :
  perform S_ex (CGetConfig (ok_ds "http://h/x") None (Some (lit "trim"%string)))
  = ([EvRegister; EvAssert s_k_url; EvAssert s_k_wd; EvLookup s_k_wd; EvSend], Sent).
Proof. vm_compute. reflexivity. Qed.

Example C09_ex_wd_refused :
  perform S_ex (CGet None (Some (lit "report-all-tagged"%string)))
  = ([EvRegister; EvAssert s_k_wd; EvLookup s_k_wd], Exn WithDefaultsError).
Proof. vm_compute. reflexivity. Qed.

(* commit arguments given alone.  persist_id without confirmed (the follow-up of a persistent confirmed commit) carries
   <persist-id>: refused without :confirmed-commit, for the standard and the SR OS class; timeout / persist without
   confirmed carry nothing and need nothing; the Junos override has no persist_id *)
Definition ex_uris_cc : list bytes :=
  [ lit "urn:ietf:params:netconf:capability:candidate:1.0"%string;
    lit "urn:ietf:params:xml:ns:netconf:capability:confirmed-commit:1.1"%string ].
Example C09_ex_commit_alone :
  perform S_ex (CCommit VSros false false false true None None)
    = ([EvAssert s_k_candidate; EvRegister; EvAssert s_k_confirmed], Exn MissingCapability)
  /\ perform S_ex (CCommit VStd false false false true None None)
    = ([EvAssert s_k_candidate; EvRegister; EvAssert s_k_confirmed], Exn MissingCapability)
  /\ perform S_ex (CCommit VSros false true true false None None) = ([EvAssert s_k_candidate; EvRegister; EvSend], Sent)
  /\ wire_of (CCommit VSros false true true false None None) = [WCommit]
  /\ perform S_ex (CCommit VJunos false true true true None None) = ([EvAssert s_k_candidate; EvRegister; EvSend], Sent)
  /\ wire_of (CCommit VJunos false true true true None None) = [WCommit].
Proof. repeat split; vm_compute; reflexivity. Qed.

(* hypotheses of C09_wire_backed hold on a request with four dependent constructs *)
Example C09_ex_wire_backed_hyp :
  let c := CCommit VSros true true true false None None in
  snd (perform (SCaps (caps_of ex_uris_cc)) c) = Sent
  /\ wire_of c = [WCommit; WConfirmed; WConfirmTimeout; WPersist]
  /\ wire_of (CCommit VStd false false false true None None) = [WCommit; WPersistId]
  /\ snd (perform (SCaps (caps_of ex_uris_cc)) (CCommit VStd false false false true None None)) = Sent
  /\ wire_of (CEditConfig (ok_ds "ftp://h/x") None (Some s_test_only) (Some s_rollback_on_error) s_f_url None true)
     = [WUrl; WTestOption; WTestOnly; WRollbackOnError; WUrl].
Proof. cbv zeta. repeat split; vm_compute; reflexivity. Qed.

(* hypotheses of C09_sent_mode hold *)
Example C09_ex_sent_mode_hyp :
  snd (perform S_ex (CGet None (Some (lit "trim"%string)))) = Sent /\ wd_of (CGet None (Some (lit "trim"%string))) = Some (lit "trim"%string).
Proof. split; vm_compute; reflexivity. Qed.

(* an enumerated argument outside its set is refused before the capability is even asked *)
Example C09_ex_enum_first :
  perform S_ex (CEditConfig (ok_ds "running") None (Some (lit "bogus"%string)) None (lit "xml"%string) None true)
  = ([EvRegister], Exn OperationError).
Proof. vm_compute. reflexivity. Qed.

(* the `except AttributeError: pass` of RPC.__init__: without server capabilities the class
   check is skipped and the request goes out; an argument-level check still raises *)
Example C09_ex_noattr :
  perform SNoAttr CDiscardChanges = ([EvRegister; EvSend], Sent)
  /\ perform SNoAttr (CCommit VStd true false false false None None) = ([EvRegister], Exn AttributeError).
Proof. split; vm_compute; reflexivity. Qed.

(* ------------------------------------------------------------------------------------------ *)
(* Vendor operation classes (ncclient/operations/third_party/*/rpc.py) other than the Junos / SR OS
   Commit (which are CCommit VJunos / VSros above).  Model: Model/VendorGating.v — alu
   load_configuration / get_configuration, h3c get_bulk_config (the three callers of
   datastore_or_url(…, self._assert)) and the 25 classes that check nothing.
   Spec: Spec/VendorGatingSpec.v (vneeds, vwellformed).  Quantification: ALL capability lists,
   ALL vendor calls and argument records. *)
From NC Require Import Model.VendorGating Spec.VendorGatingSpec Proofs.VendorGatingProofs.

(* a URL handed to alu load_configuration(target=) / h3c get_bulk_config(source=) while the server does
   not advertise :url: the call raises (MissingCapabilityError unless an argument is refused first),
   nothing is sent *)
Theorem C09_vendor_refused : forall (uris : list bytes) (c : vgcall) (k : bytes),
  In k (vneeds c) -> ~ advertised uris k ->
  exists e, snd (vperform (SCaps (caps_of uris)) c) = Exn e
            /\ count_send (fst (vperform (SCaps (caps_of uris)) c)) = 0%nat
            /\ (vwellformed c = true -> e = MissingCapability).
Proof. exact c09_vendor_refused. Qed.
Print Assumptions C09_vendor_refused.

(* every documented dependency advertised: sent, once *)
Theorem C09_vendor_allowed : forall (uris : list bytes) (c : vgcall),
  vwellformed c = true -> (forall k, In k (vneeds c) -> advertised uris k) ->
  snd (vperform (SCaps (caps_of uris)) c) = Sent
  /\ count_send (fst (vperform (SCaps (caps_of uris)) c)) = 1%nat.
Proof. exact c09_vendor_allowed. Qed.
Print Assumptions C09_vendor_allowed.

(* a vendor call without a URL argument is sent whatever the server advertises (even nothing) *)
Theorem C09_vendor_ungated : forall (uris : list bytes) (c : vgcall),
  vneeds c = [] -> vwellformed c = true ->
  snd (vperform (SCaps (caps_of uris)) c) = Sent
  /\ count_send (fst (vperform (SCaps (caps_of uris)) c)) = 1%nat.
Proof. exact c09_vendor_ungated. Qed.
Print Assumptions C09_vendor_ungated.

(* whatever the session and the vendor call: an exception means no send, a sent request exactly one *)
Theorem C09_vendor_send_once : forall (s : sess) (c : vgcall),
  match snd (vperform s c) with
  | Sent => count_send (fst (vperform s c)) = 1%nat
  | Exn _ => count_send (fst (vperform s c)) = 0%nat
  end.
Proof. exact c09_vendor_send_once. Qed.
Print Assumptions C09_vendor_send_once.

(* the capability tests request() performs are exactly the documented needs, in order *)
Theorem C09_vendor_needs_exact : forall c : vgcall,
  vwellformed c = true -> asserts (vg_steps c) = vneeds c.
Proof. exact c09_vendor_needs_exact. Qed.
Print Assumptions C09_vendor_needs_exact.

(* a vendor request that was sent carries no <url> (the only capability-dependent construct a vendor class other than
   the two Commit classes can emit) unless the server advertised :url *)
Theorem C09_vendor_wire_backed : forall (uris : list bytes) (c : vgcall) (w : wire) (k : bytes),
  snd (vperform (SCaps (caps_of uris)) c) = Sent -> In w (vwire_of c) -> In k (wire_needs w) -> advertised uris k.
Proof. exact c09_vendor_wire_backed. Qed.
Print Assumptions C09_vendor_wire_backed.

(* ---------------- non-vacuity ---------------- *)
Definition ex_uris_nourl : list bytes :=
  [ lit "urn:ietf:params:netconf:base:1.0"%string; lit "urn:ietf:params:netconf:capability:candidate:1.0"%string ].

Example C09_ex_vendor_refused_hyp :
  let c := GALoadConfiguration (lit "cli"%string) (ok_ds "ftp://h/cfg") (Some None) None in
  In s_k_url (vneeds c) /\ ~ advertised ex_uris_nourl s_k_url /\ vwellformed c = true.
Proof. cbv zeta. split; [vm_compute; auto|]. split; [apply absent_iff; vm_compute; reflexivity|reflexivity]. Qed.

Example C09_ex_vendor_refused :
  vperform (SCaps (caps_of ex_uris_nourl)) (GALoadConfiguration (lit "cli"%string) (ok_ds "ftp://h/cfg") (Some None) None)
    = ([EvRegister; EvAssert s_k_url], Exn MissingCapability)
  /\ vperform (SCaps (caps_of ex_uris_nourl)) (GHGetBulkConfig (ok_ds "file:///x") None)
    = ([EvRegister; EvAssert s_k_url], Exn MissingCapability).
Proof. split; vm_compute; reflexivity. Qed.

Example C09_ex_vendor_allowed :
  vperform S_ex (GHGetBulkConfig (ok_ds "file:///x") None) = ([EvRegister; EvAssert s_k_url; EvSend], Sent)
  /\ vperform S_ex (GALoadConfiguration (lit "xml"%string) (ok_ds "http://h/x") (Some None) None)
     = ([EvRegister; EvAssert s_k_url; EvSend], Sent)
  (* a datastore name, the literal 'running' of alu get_configuration, a format that builds no <target>,
     no config at all, a class without datastore argument: nothing is asked *)
  /\ vperform (SCaps (caps_of [])) (GHGetBulkConfig (ok_ds "running") None) = ([EvRegister; EvSend], Sent)
  /\ vperform (SCaps (caps_of [])) (GAGetConfiguration None) = ([EvRegister; EvSend], Sent)
  /\ vperform (SCaps (caps_of [])) (GALoadConfiguration (lit "json"%string) (ok_ds "http://h/x") (Some None) None) = ([EvRegister; EvSend], Sent)
  /\ vperform (SCaps (caps_of [])) (GALoadConfiguration (lit "xml"%string) (ok_ds "http://h/x") None None) = ([EvRegister; EvSend], Sent)
  /\ vperform (SCaps (caps_of [])) (GPlain KHCli None) = ([EvRegister; EvSend], Sent).
Proof. repeat split; vm_compute; reflexivity. Qed.

(* a locally refused argument in front of / behind the check *)
Example C09_ex_vendor_malformed :
  vperform S_ex (GHGetBulkConfig (DsStr (lit "ftp://h/x"%string) false) None) = ([EvRegister; EvAssert s_k_url], Exn ValueError)
  /\ vperform (SCaps (caps_of ex_uris_nourl)) (GHGetBulkConfig (DsStr (lit "ftp://h/x"%string) false) None)
     = ([EvRegister; EvAssert s_k_url], Exn MissingCapability)
  /\ vperform S_ex (GALoadConfiguration (lit "xml"%string) (DsBad TypeError) (Some None) None) = ([EvRegister], Exn TypeError).
Proof. repeat split; vm_compute; reflexivity. Qed.

Example C09_ex_vendor_wire :
  vwire_of (GHGetBulkConfig (ok_ds "file:///x") None) = [WUrl]
  /\ snd (vperform S_ex (GHGetBulkConfig (ok_ds "file:///x") None)) = Sent
  /\ vwire_of (GALoadConfiguration (lit "cli"%string) (ok_ds "ftp://h/cfg") (Some None) None) = [WUrl]
  /\ vwire_of (GALoadConfiguration (lit "json"%string) (ok_ds "ftp://h/cfg") (Some None) None) = [].
Proof. repeat split; vm_compute; reflexivity. Qed.

(* ================= order of calls: the object built before / after the <hello> exchange ================= *)
(* The operation classes are public; an application may build `Commit(session, device_handler)` (or any other class) on a
   Session it connects only afterwards (`server_capabilities` is None until the server's <hello> is parsed), and call
   request() once connected.  [perform_at s0 s c]: the object is built at moment [s0] ([None] = before the <hello>,
   [Some s] = on the connected session — what Manager.execute does), request() runs on the connected session [s].
   [moment_of s s0]: s0 is one of these two. *)
From NC Require Import Proofs.OrderProofs.

(* A documented dependency is not advertised: whatever the moment the object was built, the history ends in an
   exception and nothing is sent.  The exception is MissingCapabilityError — or the TypeError of a construction
   attempted while the capabilities were unknown (class with DEPENDS), which leaves nothing registered. *)
Theorem C09_order_refused : forall (uris : list bytes) (s0 : option sess) (c : call) (k : bytes),
  moment_of (SCaps (caps_of uris)) s0 -> In k (needs c) -> ~ advertised uris k ->
  exists e, snd (perform_at s0 (SCaps (caps_of uris)) c) = Exn e
            /\ count_send (fst (perform_at s0 (SCaps (caps_of uris)) c)) = 0%nat
            /\ (wellformed c = true ->
                e = MissingCapability \/ (s0 = None /\ e = TypeError /\ fst (perform_at s0 (SCaps (caps_of uris)) c) = [])).
Proof. exact c09_order_refused. Qed.
Print Assumptions C09_order_refused.

(* Wire reading: a request that was sent carries no construct whose capability the server did not advertise, and every
   documented need of the call was advertised — whenever the object was built. *)
Theorem C09_order_wire_backed : forall (uris : list bytes) (s0 : option sess) (c : call) (w : wire) (k : bytes),
  moment_of (SCaps (caps_of uris)) s0 -> snd (perform_at s0 (SCaps (caps_of uris)) c) = Sent ->
  In w (wire_of c) -> In k (wire_needs w) -> advertised uris k.
Proof. exact c09_order_wire_backed. Qed.
Print Assumptions C09_order_wire_backed.

Theorem C09_order_sent_needs : forall (uris : list bytes) (s0 : option sess) (c : call) (k : bytes),
  moment_of (SCaps (caps_of uris)) s0 -> snd (perform_at s0 (SCaps (caps_of uris)) c) = Sent ->
  In k (needs c) -> advertised uris k.
Proof. exact c09_order_sent_needs. Qed.
Print Assumptions C09_order_sent_needs.

Theorem C09_order_sent_mode : forall (uris : list bytes) (s0 : option sess) (c : call) (norm : bytes),
  moment_of (SCaps (caps_of uris)) s0 -> snd (perform_at s0 (SCaps (caps_of uris)) c) = Sent ->
  wd_of c = Some norm -> wd_accepts uris norm.
Proof. exact c09_order_sent_mode. Qed.
Print Assumptions C09_order_sent_mode.

(* Everything advertised: an object built on the connected session — or built early by a class without DEPENDS, whose
   checks all sit in request() — sends its request, once. *)
Theorem C09_order_allowed : forall (uris : list bytes) (s0 : option sess) (c : call),
  moment_of (SCaps (caps_of uris)) s0 -> (s0 = None -> class_deps c = []) ->
  wellformed c = true -> (forall k, In k (needs c) -> advertised uris k) ->
  (forall norm, wd_of c = Some norm -> wd_accepts uris norm /\ xml_chars_ok norm = true) ->
  snd (perform_at s0 (SCaps (caps_of uris)) c) = Sent
  /\ count_send (fst (perform_at s0 (SCaps (caps_of uris)) c)) = 1%nat.
Proof. exact c09_order_allowed. Qed.
Print Assumptions C09_order_allowed.

(* Whatever the two sessions (any capabilities at construction, any at request): an exception means no send. *)
Theorem C09_order_send_once : forall (s0 : option sess) (s : sess) (c : call),
  match snd (perform_at s0 s c) with
  | Sent => count_send (fst (perform_at s0 s c)) = 1%nat
  | Exn _ => count_send (fst (perform_at s0 s c)) = 0%nat
  end.
Proof. exact c09_order_send_once. Qed.
Print Assumptions C09_order_send_once.

(* The vendor classes (no DEPENDS; their checks sit in request()): the moment of construction changes nothing. *)
Theorem C09_order_vendor_same : forall (s0 : option sess) (s : sess) (c : vgcall),
  moment_of s s0 -> vperform_at s0 s c = vperform s c.
Proof. exact vperform_at_same. Qed.
Print Assumptions C09_order_vendor_same.

Theorem C09_order_vendor_refused : forall (uris : list bytes) (s0 : option sess) (c : vgcall) (k : bytes),
  moment_of (SCaps (caps_of uris)) s0 -> In k (vneeds c) -> ~ advertised uris k ->
  exists e, snd (vperform_at s0 (SCaps (caps_of uris)) c) = Exn e
            /\ count_send (fst (vperform_at s0 (SCaps (caps_of uris)) c)) = 0%nat
            /\ (vwellformed c = true -> e = MissingCapability).
Proof. exact c09_order_vendor_refused. Qed.
Print Assumptions C09_order_vendor_refused.

Theorem C09_order_vendor_wire_backed : forall (uris : list bytes) (s0 : option sess) (c : vgcall) (w : wire) (k : bytes),
  moment_of (SCaps (caps_of uris)) s0 -> snd (vperform_at s0 (SCaps (caps_of uris)) c) = Sent ->
  In w (vwire_of c) -> In k (wire_needs w) -> advertised uris k.
Proof. exact c09_order_vendor_wire_backed. Qed.
Print Assumptions C09_order_vendor_wire_backed.

(* ---------------- non-vacuity ---------------- *)
(* a commit object built before the <hello>: the construction fails, nothing registered; built on the connected session
   without :candidate: MissingCapabilityError; both moments satisfy the hypotheses of C09_order_refused *)
Example C09_ex_order_early :
  let S0 := SCaps (caps_of ex_uris_nourl) in
  perform_at None S_ex (CCommit VStd false false false false None None) = ([], Exn TypeError)
  /\ perform_at None (SCaps (caps_of [])) (CCommit VJunos false false false false None None) = ([], Exn TypeError)
  /\ perform_at None (SCaps (caps_of [])) (CValidate (SrcDs (ok_ds "running"))) = ([], Exn TypeError)
  /\ perform_at None (SCaps (caps_of [])) CDiscardChanges = ([], Exn TypeError)
  /\ perform_at None (SCaps (caps_of [])) (CCreateSubscription None) = ([], Exn TypeError)
  /\ perform_at (Some (SCaps (caps_of []))) (SCaps (caps_of [])) CDiscardChanges = ([EvAssert s_k_candidate], Exn MissingCapability)
  /\ moment_of S0 None /\ moment_of S0 (Some S0)
  /\ In s_k_candidate (needs CDiscardChanges) /\ ~ advertised [] s_k_candidate.
Proof.
  cbv zeta. split; [vm_compute; reflexivity|]. split; [vm_compute; reflexivity|]. split; [vm_compute; reflexivity|].
  split; [vm_compute; reflexivity|]. split; [vm_compute; reflexivity|]. split; [vm_compute; reflexivity|].
  split; [now left|]. split; [now right|]. split; [vm_compute; auto|].
  apply absent_iff; vm_compute; reflexivity.
Qed.

(* a class without DEPENDS built early: its request() checks run against the capabilities of the connected session *)
Example C09_ex_order_early_nodeps :
  perform_at None (SCaps (caps_of ex_uris_nourl)) (CDeleteConfig (ok_ds "ftp://h/x")) = ([EvRegister; EvAssert s_k_url], Exn MissingCapability)
  /\ perform_at None S_ex (CDeleteConfig (ok_ds "ftp://h/x")) = ([EvRegister; EvAssert s_k_url; EvSend], Sent)
  /\ class_deps (CDeleteConfig (ok_ds "ftp://h/x")) = []
  /\ vperform_at None (SCaps (caps_of ex_uris_nourl)) (GHGetBulkConfig (ok_ds "file:///x") None) = ([EvRegister; EvAssert s_k_url], Exn MissingCapability)
  /\ vperform_at None S_ex (GHGetBulkConfig (ok_ds "file:///x") None) = ([EvRegister; EvAssert s_k_url; EvSend], Sent).
Proof. repeat split; vm_compute; reflexivity. Qed.
