(* Props/C02.v — property C02: outbound framing under partial writes and concurrent submitters.
   Only statements, closed by [exact], each followed by Print Assumptions.
   Model: Model/Writer.v (Session.run send branch, Session.send).  Spec: Spec/WireSpec.v
   (strict RFC 4742 / RFC 6242 receivers, written independently of the encoder).
   A message is its UTF-8 octet list: [length m] is the octet count. *)
From Coq Require Import String.
From NC Require Import Model.Base Model.Lit Model.Writer Spec.WireSpec Proofs.WriterProofs.

(* The write loop under EVERY answer pattern of the transport (any accepted counts >= 1, also
   larger than what is left; 0 / negative / exception at any call; oracle ending early):
   the octets taken so far followed by the unsent tail are the frame; it ends normally iff
   every consumed answer accepted at least one octet; it ends in the error value iff the last
   consumed answer was 0 / negative / raise (SessionCloseError unless the transport raised),
   and then the unsent tail is non-empty. *)
Theorem C02_short_writes : forall data answers w r rest,
  write_loop data answers = (w, r, rest) ->
  exists used, answers = used ++ rest /\ data = w ++ unsent r /\
    (r = WDone <-> Forall accepting used /\ unsent r = []) /\
    (forall e, r = WErr e -> exists used' a, used = used' ++ [a] /\ Forall accepting used' /\ rejecting a
                              /\ unsent r <> [] /\ (e = SessionClose (unsent r) <-> a <> Raise)) /\
    (forall u, r = WStarved u -> Forall accepting used /\ rest = [] /\ u <> []).
Proof. exact c02_short_writes. Qed.
Print Assumptions C02_short_writes.

(* ... and a transport that keeps accepting (>= 1 octet per call) gets the whole frame. *)
Theorem C02_short_writes_complete : forall answers data,
  Forall accepting answers -> (length data <= length answers)%nat ->
  exists rest, write_loop data answers = (data, WDone, rest).
Proof. exact write_loop_enough. Qed.
Print Assumptions C02_short_writes_complete.

(* A strict RFC 6242 receiver decodes the concatenated frames to exactly the messages, for
   messages that are non-empty and at most 4294967295 octets long (sendable11). *)
Theorem C02_decode11 : forall msgs, Forall sendable11 msgs ->
  decode11 (concat (map (frame B11) msgs)) = Some msgs.
Proof. exact c02_decode11. Qed.
Print Assumptions C02_decode11.

(* An EMPTY message under 1.1 is framed "\n#0\n\n##\n"; chunk-size 0 is outside RFC 6242 and
   a strict receiver rejects the whole stream from there (open finding, sig empty_message_base11;
   ncclient itself never queues an empty message). *)
Theorem C02_decode11_empty_refuted : forall before after, Forall sendable11 before ->
  decode11 (concat (map (frame B11) (before ++ [] :: after))) = None.
Proof. exact c02_empty11_refuted. Qed.
Print Assumptions C02_decode11_empty_refuted.

(* A strict RFC 4742 receiver decodes the concatenated frames to exactly the messages, for
   messages in which "]]>]]>" does not begin before their end once the delimiter is appended
   (eom_safe: no "]]>]]>" inside, not ending in "]]>"); the empty message is allowed. *)
Theorem C02_decode10 : forall msgs, Forall eom_safe msgs ->
  decode10 (concat (map (frame B10) msgs)) = Some msgs.
Proof. exact c02_decode10. Qed.
Print Assumptions C02_decode10.

(* At every point of every run of the worker (any queue content, any readiness pattern, any
   transport answers; the oracles may end anywhere, which is how "every point" is quantified):
   the wire is a prefix of the frames of the queue in queue order, and it consists of whole
   frames followed by at most one strict prefix of the NEXT frame: no interleaving. *)
Theorem C02_wire_prefix : forall b q readys answers w st,
  worker b q readys answers = (w, st) ->
  prefix_of w (concat (map (frame b) q)) /\
  exists done partial rest, q = done ++ rest /\ w = concat (map (frame b) done) ++ partial /\
    (partial = [] \/ exists m rest', rest = m :: rest' /\ strict_prefix_of partial (frame b m)).
Proof. exact c02_wire_prefix. Qed.
Print Assumptions C02_wire_prefix.

(* When the queue has drained the wire is exactly all frames ... *)
Theorem C02_drained : forall b q readys answers w,
  worker b q readys answers = (w, Drained) -> w = concat (map (frame b) q).
Proof. exact c02_drained. Qed.
Print Assumptions C02_drained.

(* Transport closed / raised: the worker leaves with the error value, the wire holds the whole
   frames of the earlier messages and a STRICT prefix of the current frame (the rest is the
   error's out-buffer), and nothing of the later messages q'. *)
Theorem C02_failure : forall b q readys answers w e q',
  worker b q readys answers = (w, Failed e q') ->
  exists done m partial, q = done ++ m :: q' /\
    w = concat (map (frame b) done) ++ partial /\
    frame b m = partial ++ unsent_of_err e /\ unsent_of_err e <> [].
Proof. exact c02_failure. Qed.
Print Assumptions C02_failure.

(* ... and it never reports a failure while the transport keeps accepting. *)
Theorem C02_no_spurious_failure : forall b readys q answers w st,
  Forall accepting answers -> worker b q readys answers = (w, st) -> forall e q', st <> Failed e q'.
Proof. exact c02_no_spurious_failure. Qed.
Print Assumptions C02_no_spurious_failure.

(* Concurrent submitters: in EVERY interleaving of the threads' put sequences, the messages of
   each thread appear in the queue in that thread's own order, and nothing else does. *)
Theorem C02_submission_order : forall progs out,
  interleaving progs out ->
  (forall t, of_thread t out = progs t) /\ (forall t m, In (t, m) out -> In m (progs t)).
Proof. intros progs out H. split; [exact (c02_submission_order _ _ H)|exact (interleaving_complete _ _ H)]. Qed.
Print Assumptions C02_submission_order.

(* -------- non-vacuity -------- *)
(* "naïve" : 5 characters, 6 octets — the chunk header carries the OCTET count *)
Definition naive : bytes := [110; 97; 195; 175; 118; 101]%N.
Example C02_ex_octets : frame B11 naive = [LF; HASH; 54 (* '6' *); LF] ++ naive ++ END_DELIM.
Proof. vm_compute. reflexivity. Qed.

Definition ex_q : list bytes := [naive; lit "<rpc/>"%string; lit "0123456789ab"%string].
(* short writes of 1, 3, 100 (> what is left), 2, ... with a not-ready pass in between *)
Definition ex_answers : list answer := [Accept 1; Accept 3; Accept 100; Accept 2; Accept 100; Accept 7; Accept 7; Accept 7; Accept 7].
Example C02_ex_run11 :
  worker B11 ex_q [false; true; true; false; true] ex_answers = (concat (map (frame B11) ex_q), Drained)
  /\ decode11 (concat (map (frame B11) ex_q)) = Some ex_q.
Proof. vm_compute. split; reflexivity. Qed.
Example C02_ex_run10 :
  worker B10 ex_q [true; true; true] ex_answers = (concat (map (frame B10) ex_q), Drained)
  /\ decode10 (concat (map (frame B10) ex_q)) = Some ex_q /\ Forall eom_safe ex_q.
Proof. vm_compute. repeat split; repeat constructor. Qed.
Example C02_ex_sendable : Forall sendable11 ex_q.
Proof. repeat constructor; try discriminate; vm_compute; discriminate. Qed.
(* failure in the middle of the second frame: first frame whole, 3 octets of the second, third message absent *)
Example C02_ex_failure :
  worker B11 ex_q [true; true; true] [Accept 100; Accept 3; Neg; Accept 100]
  = (frame B11 naive ++ firstn 3 (frame B11 (lit "<rpc/>"%string)),
     Failed (SessionClose (skipn 3 (frame B11 (lit "<rpc/>"%string)))) [lit "0123456789ab"%string]).
Proof. vm_compute. reflexivity. Qed.
Example C02_ex_inflight :
  exists u, snd (worker B10 ex_q [true; true] [Accept 100; Accept 2]) = InFlight u [lit "0123456789ab"%string].
Proof. eexists. vm_compute. reflexivity. Qed.
(* a message ending in "]]>" is not eom_safe, and indeed is decoded wrongly by a strict 1.0 receiver *)
Example C02_ex_not_eom_safe :
  decode10 (frame B10 (lit "a]]>"%string)) <> Some [lit "a]]>"%string].
Proof. vm_compute. discriminate. Qed.
(* two threads, an interleaving of their programs *)
Definition ex_progs (t : nat) : list bytes :=
  match t with 0%nat => [lit "a1"%string; lit "a2"%string] | 1%nat => [lit "b1"%string] | _ => [] end.
Example C02_ex_interleaving :
  interleaving ex_progs [(0%nat, lit "a1"%string); (1%nat, lit "b1"%string); (0%nat, lit "a2"%string)].
Proof.
  eapply il_put; [reflexivity|]. eapply il_put; [reflexivity|]. eapply il_put; [reflexivity|].
  apply il_done. intros [|[|t]]; reflexivity.
Qed.
