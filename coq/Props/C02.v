(* Props/C02.v — property C02: outbound framing under partial writes and concurrent submitters.
   Only statements, closed by [exact], each followed by Print Assumptions.
   Model: Model/Writer.v (Session.run send branch, Session.send).  Spec: Spec/WireSpec.v
   (strict RFC 4742 / RFC 6242 receivers, written independently of the encoder).
   A message is its UTF-8 octet list: [length m] is the octet count. *)
From Coq Require Import String.
From NC Require Import Model.Base Model.Lit Model.Writer Spec.WireSpec Proofs.WriterProofs.
From NC Require Import Model.WriterSched Proofs.WriterSchedProofs.

(* The write loop under EVERY answer pattern of the transport (any accepted counts >= 1, also
   larger than what is left; 0 / negative / exception at any call; oracle ending early):
   the octets taken so far followed by the unsent tail are the frame; it ends normally iff
   every consumed answer accepted at least one octet; it ends in the error value iff the last
   consumed answer was 0 / negative / raise / no number at all (None) (SessionCloseError unless the transport
   raised or the comparison `n <= 0` did), and then the unsent tail is non-empty: NO answer other than a count >= 1
   is ever taken for progress. *)
Theorem C02_short_writes : forall data answers w r rest,
  write_loop data answers = (w, r, rest) ->
  exists used, answers = used ++ rest /\ data = w ++ unsent r /\
    (r = WDone <-> Forall accepting used /\ unsent r = []) /\
    (forall e, r = WErr e -> exists used' a, used = used' ++ [a] /\ Forall accepting used' /\ rejecting a
                              /\ unsent r <> [] /\ (e = SessionClose (unsent r) <-> a <> Raise /\ a <> NoCount)
                              /\ (e = CompareExc (unsent r) <-> a = NoCount)) /\
    (forall u, r = WStarved u -> Forall accepting used /\ rest = [] /\ u <> []).
Proof. exact c02_short_writes. Qed.
Print Assumptions C02_short_writes.

(* ... and a transport that keeps accepting (>= 1 octet per call) gets the whole frame. *)
Theorem C02_short_writes_complete : forall answers data,
  Forall accepting answers -> (length data <= length answers)%nat ->
  exists rest, write_loop data answers = (data, WDone, rest).
Proof. exact write_loop_enough. Qed.
Print Assumptions C02_short_writes_complete.

(* A strict RFC 6242 receiver decodes the concatenated frames to exactly the messages, for
   messages that are non-empty and at most 4294967295 octets long (sendable11). *)
Theorem C02_decode11 : forall msgs, Forall sendable11 msgs ->
  decode11 (concat (map (frame B11) msgs)) = Some msgs.
Proof. exact c02_decode11. Qed.
Print Assumptions C02_decode11.

(* An EMPTY message under 1.1 is framed "\n#0\n\n##\n"; chunk-size 0 is outside RFC 6242 and
   a strict receiver rejects the whole stream from there (open finding, sig empty_message_base11;
   ncclient itself never queues an empty message). *)
Theorem C02_decode11_empty_refuted : forall before after, Forall sendable11 before ->
  decode11 (concat (map (frame B11) (before ++ [] :: after))) = None.
Proof. exact c02_empty11_refuted. Qed.
Print Assumptions C02_decode11_empty_refuted.

(* A strict RFC 4742 receiver decodes the concatenated frames to exactly the messages, for
   messages in which "]]>]]>" does not begin before their end once the delimiter is appended
   (eom_safe: no "]]>]]>" inside, not ending in "]]>"); the empty message is allowed. *)
Theorem C02_decode10 : forall msgs, Forall eom_safe msgs ->
  decode10 (concat (map (frame B10) msgs)) = Some msgs.
Proof. exact c02_decode10. Qed.
Print Assumptions C02_decode10.

(* At every point of every run of the worker (any queue content, any readiness pattern, any
   transport answers; the oracles may end anywhere, which is how "every point" is quantified):
   the wire is a prefix of the frames of the queue in queue order, and it consists of whole
   frames followed by at most one strict prefix of the NEXT frame: no interleaving. *)
Theorem C02_wire_prefix : forall b q readys answers w st,
  worker b q readys answers = (w, st) ->
  prefix_of w (concat (map (frame b) q)) /\
  exists done partial rest, q = done ++ rest /\ w = concat (map (frame b) done) ++ partial /\
    (partial = [] \/ exists m rest', rest = m :: rest' /\ strict_prefix_of partial (frame b m)).
Proof. exact c02_wire_prefix. Qed.
Print Assumptions C02_wire_prefix.

(* When the queue has drained the wire is exactly all frames ... *)
Theorem C02_drained : forall b q readys answers w,
  worker b q readys answers = (w, Drained) -> w = concat (map (frame b) q).
Proof. exact c02_drained. Qed.
Print Assumptions C02_drained.

(* Transport closed / raised: the worker leaves with the error value, the wire holds the whole
   frames of the earlier messages and a STRICT prefix of the current frame (the rest is the
   error's out-buffer), and nothing of the later messages q'. *)
Theorem C02_failure : forall b q readys answers w e q',
  worker b q readys answers = (w, Failed e q') ->
  exists done m partial, q = done ++ m :: q' /\
    w = concat (map (frame b) done) ++ partial /\
    frame b m = partial ++ unsent_of_err e /\ unsent_of_err e <> [].
Proof. exact c02_failure. Qed.
Print Assumptions C02_failure.

(* ... and it never reports a failure while the transport keeps accepting. *)
Theorem C02_no_spurious_failure : forall b readys q answers w st,
  Forall accepting answers -> worker b q readys answers = (w, st) -> forall e q', st <> Failed e q'.
Proof. exact c02_no_spurious_failure. Qed.
Print Assumptions C02_no_spurious_failure.

(* Concurrent submitters: in EVERY interleaving of the threads' put sequences, the messages of
   each thread appear in the queue in that thread's own order, and nothing else does. *)
Theorem C02_submission_order : forall progs out,
  interleaving progs out ->
  (forall t, of_thread t out = progs t) /\ (forall t m, In (t, m) out -> In m (progs t)).
Proof. intros progs out H. split; [exact (c02_submission_order _ _ H)|exact (interleaving_complete _ _ H)]. Qed.
Print Assumptions C02_submission_order.

(* -------- non-vacuity -------- *)
(* "naïve" : 5 characters, 6 octets — the chunk header carries the OCTET count *)
Definition naive : bytes := [110; 97; 195; 175; 118; 101]%N.
Example C02_ex_octets : frame B11 naive = [LF; HASH; 54 (* '6' *); LF] ++ naive ++ END_DELIM.
Proof. vm_compute. reflexivity. Qed.

Definition ex_q : list bytes := [naive; lit "<rpc/>"%string; lit "0123456789ab"%string].
(* short writes of 1, 3, 100 (> what is left), 2, ... with a not-ready pass in between *)
Definition ex_answers : list answer := [Accept 1; Accept 3; Accept 100; Accept 2; Accept 100; Accept 7; Accept 7; Accept 7; Accept 7].
Example C02_ex_run11 :
  worker B11 ex_q [false; true; true; false; true] ex_answers = (concat (map (frame B11) ex_q), Drained)
  /\ decode11 (concat (map (frame B11) ex_q)) = Some ex_q.
Proof. vm_compute. split; reflexivity. Qed.
Example C02_ex_run10 :
  worker B10 ex_q [true; true; true] ex_answers = (concat (map (frame B10) ex_q), Drained)
  /\ decode10 (concat (map (frame B10) ex_q)) = Some ex_q /\ Forall eom_safe ex_q.
Proof. vm_compute. repeat split; repeat constructor. Qed.
Example C02_ex_sendable : Forall sendable11 ex_q.
Proof. repeat constructor; try discriminate; vm_compute; discriminate. Qed.
(* failure in the middle of the second frame: first frame whole, 3 octets of the second, third message absent *)
Example C02_ex_failure :
  worker B11 ex_q [true; true; true] [Accept 100; Accept 3; Neg; Accept 100]
  = (frame B11 naive ++ firstn 3 (frame B11 (lit "<rpc/>"%string)),
     Failed (SessionClose (skipn 3 (frame B11 (lit "<rpc/>"%string)))) [lit "0123456789ab"%string]).
Proof. vm_compute. reflexivity. Qed.
(* an answer that is no number (a transport write that returned None) after a short write: never progress - the frame
   stops there, the whole rest is unsent, the messages behind it stay in the queue *)
Example C02_ex_nocount :
  worker B11 ex_q [true; true; true] [Accept 100; Accept 3; NoCount; Accept 100]
  = (frame B11 naive ++ firstn 3 (frame B11 (lit "<rpc/>"%string)),
     Failed (CompareExc (skipn 3 (frame B11 (lit "<rpc/>"%string)))) [lit "0123456789ab"%string]).
Proof. vm_compute. reflexivity. Qed.
Example C02_ex_inflight :
  exists u, snd (worker B10 ex_q [true; true] [Accept 100; Accept 2]) = InFlight u [lit "0123456789ab"%string].
Proof. eexists. vm_compute. reflexivity. Qed.
(* a message ending in "]]>" is not eom_safe, and indeed is decoded wrongly by a strict 1.0 receiver *)
Example C02_ex_not_eom_safe :
  decode10 (frame B10 (lit "a]]>"%string)) <> Some [lit "a]]>"%string].
Proof. vm_compute. discriminate. Qed.
(* two threads, an interleaving of their programs *)
Definition ex_progs (t : nat) : list bytes :=
  match t with 0%nat => [lit "a1"%string; lit "a2"%string] | 1%nat => [lit "b1"%string] | _ => [] end.
Example C02_ex_interleaving :
  interleaving ex_progs [(0%nat, lit "a1"%string); (1%nat, lit "b1"%string); (0%nat, lit "a2"%string)].
Proof.
  eapply il_put; [reflexivity|]. eapply il_put; [reflexivity|]. eapply il_put; [reflexivity|].
  apply il_done. intros [|[|t]]; reflexivity.
Qed.

(* ====================================================================================================
   Submitters RACING the worker: Model/WriterSched.v is a transition system with one label per access to
   shared state (`connected` read in send, the queue put, q.empty(), _send_ready(), the dequeue, the reads of
   _hello_pending and _base that decide the framing, every _transport_write call with its answer, the failure
   path, and the assignment of _base by the connecting thread).  The theorems quantify over EVERY label
   sequence the step function accepts from the initial state: any number of submitters with any programs,
   any interleaving, any answers of the transport.  [lentries b ls] are the trace's own puts
   (thread, message, _base in force at the put) in trace order; [e_frame] frames a message with that base.
   tools/harness/wr_check.py validates the effect traces of the real Session.send / Session.run pair,
   run under a deterministic scheduler, against the extracted step function.
   ==================================================================================================== *)

(* At every point of every interleaving the octets the transport has accepted are a prefix of the concatenated
   frames of the messages in the order of their queue puts: whole frames of a prefix of the puts, then at most a
   strict prefix of the frame of the NEXT put -- no frame interleaved, skipped or repeated. *)
Theorem C02_sched_wire_prefix : forall b progs ls s, wrun (winit b false progs) ls = Some s ->
  prefix_of (ws_wire s) (frames (lentries b ls)) /\
  exists done partial rest, lentries b ls = done ++ rest /\ ws_wire s = frames done ++ partial /\
    (partial = [] \/ exists e rest', rest = e :: rest' /\ strict_prefix_of partial (e_frame e)).
Proof. exact c02_sched_wire_prefix. Qed.
Print Assumptions C02_sched_wire_prefix.

(* ... and when the worker stands between two messages with the queue empty, exactly all of them. *)
Theorem C02_sched_drained : forall b progs ls s, wrun (winit b false progs) ls = Some s ->
  ws_q s = [] -> (ws_w s = PTop \/ ws_w s = PSel) -> ws_wire s = frames (lentries b ls).
Proof. exact c02_sched_drained. Qed.
Print Assumptions C02_sched_drained.

(* Step-bound liveness, for every scheduler: take any reachable state s whose worker has not failed, and any
   continuation ls2 in which every write call is answered with a positive count.  Once the worker has made
   cost(puts so far) steps -- 6 + frame length per message, + 2 -- beyond 3 per negative _send_ready() answer,
   every message whose put completed before s is on the wire completely (in put order, by the theorem above). *)
Theorem C02_sched_eventually : forall b progs ls s ls2 s',
  wrun (winit b false progs) ls = Some s -> ws_err s = None ->
  wrun s ls2 = Some s' -> forallb accepted_write ls2 = true ->
  (cost (lentries b ls) + 3 * notready ls2 <= wsteps ls2)%nat ->
  exists more, ws_wire s' = frames (lentries b ls) ++ more.
Proof. exact c02_sched_eventually. Qed.
Print Assumptions C02_sched_eventually.

(* A refused write (0, negative, exception) at any point of any interleaving: the accepted octets are the whole
   frames of the earlier puts and a strict prefix of the current frame, the error carries exactly the unsent rest,
   and whatever any thread does afterwards nothing more reaches the wire and the error stays. *)
Theorem C02_sched_failure : forall b progs ls s u, wrun (winit b false progs) ls = Some s -> ws_err s = Some u ->
  (exists done e rest partial, lentries b ls = done ++ e :: rest /\ ws_wire s = frames done ++ partial /\
     e_frame e = partial ++ unsent_of_err u /\ unsent_of_err u <> []) /\
  (forall ls' s', wrun s ls' = Some s' -> ws_wire s' = ws_wire s /\ ws_err s' = Some u).
Proof. exact c02_sched_failure. Qed.
Print Assumptions C02_sched_failure.

(* ... the worker never fails while every write is answered with a positive count ... *)
Theorem C02_sched_no_spurious_failure : forall b progs ls s, wrun (winit b false progs) ls = Some s ->
  forallb accepted_write ls = true -> ws_err s = None.
Proof. exact c02_sched_no_spurious_failure. Qed.
Print Assumptions C02_sched_no_spurious_failure.

(* ... and once close() has cleared `connected`, a thread that is not already past its `connected` test puts
   nothing any more (its send raises TransportError instead of queueing a message nobody will write). *)
Theorem C02_sched_closed_refuses : forall ls s s' t, wrun s ls = Some s' -> ws_conn s = false -> not_checked s t ->
  of_thread t (map put_of (ws_puts s')) = of_thread t (map put_of (ws_puts s)).
Proof. exact c02_sched_closed_refuses. Qed.
Print Assumptions C02_sched_closed_refuses.

(* The puts of one thread, in trace order, are a prefix of its program: program order is kept, nothing is added. *)
Theorem C02_sched_program_order : forall b progs ls s t, wrun (winit b false progs) ls = Some s ->
  exists rest, nth t progs [] = of_thread t (lputs ls) ++ rest.
Proof. exact c02_sched_program_order. Qed.
Print Assumptions C02_sched_program_order.

(* ---- non-vacuity: concrete interleavings ---- *)
Definition after (o : option wstate) (P : wstate -> Prop) : Prop := match o with Some s => P s | None => False end.
Definition sa1 : bytes := Eval compute in lit "<a1/>"%string.
Definition sa2 : bytes := Eval compute in lit "a2"%string.
Definition sb1 : bytes := Eval compute in lit "<b1>x</b1>"%string.
Definition sx_progs : list (list bytes) := [[sa1; sa2]; [sb1]].
(* thread 1 puts while the frame of a1 is half written; thread 0's second put follows; one not-ready answer *)
Definition sx_trace : list label :=
  [LChk 0 true; LPut 0 sa1; LEmpty false; LReady true; LGet sa1; LPendRd false; LBaseRd B11;
   LWrite (frame B11 sa1) (Accept 3); LChk 1 true; LPut 1 sb1; LWrite (skipn 3 (frame B11 sa1)) (Accept 100); LSelect;
   LChk 0 true; LPut 0 sa2; LEmpty false; LReady false; LSelect; LEmpty false; LReady true; LGet sb1; LPendRd false; LBaseRd B11;
   LWrite (frame B11 sb1) (Accept 100); LSelect; LEmpty false; LReady true; LGet sa2; LPendRd false; LBaseRd B11;
   LWrite (frame B11 sa2) (Accept 1); LWrite (skipn 1 (frame B11 sa2)) (Accept 100); LSelect; LEmpty true; LSelect].
Example C02_sched_ex_interleaved :
  after (wrun (winit B11 false sx_progs) sx_trace) (fun s => ws_q s = [] /\ ws_w s = PTop /\ ws_err s = None /\
    lputs sx_trace = [(0%nat, sa1); (1%nat, sb1); (0%nat, sa2)] /\
    ws_wire s = frame B11 sa1 ++ frame B11 sb1 ++ frame B11 sa2 /\
    decode11 (ws_wire s) = Some [sa1; sb1; sa2]).
Proof. vm_compute. repeat split; reflexivity. Qed.
(* _base assigned between two puts (the queue is empty): each message is framed with the base of its put *)
Example C02_sched_ex_setbase :
  after (wrun (winit B10 false [[sa1]; [sb1]])
    [LChk 0 true; LPut 0 sa1; LEmpty false; LReady true; LGet sa1; LPendRd false; LBaseRd B10; LSetBase B11; LChk 1 true; LPut 1 sb1;
     LWrite (frame B10 sa1) (Accept 100); LSelect; LEmpty false; LReady true; LGet sb1; LPendRd false; LBaseRd B11;
     LWrite (frame B11 sb1) (Accept 100); LSelect]) (fun s => ws_wire s = frame B10 sa1 ++ frame B11 sb1).
Proof. vm_compute. reflexivity. Qed.
(* ... and the assignment is not accepted while a request is queued (the environment assumption of the model) *)
Example C02_sched_ex_setbase_guard :
  wrun (winit B10 false [[sa1]]) [LChk 0 true; LPut 0 sa1; LSetBase B11] = None.
Proof. vm_compute. reflexivity. Qed.
(* a refusal inside the second frame while a third message is queued: error with the unsent rest, close, a later send refused *)
Definition sx_fail : list label :=
  [LChk 0 true; LPut 0 sa1; LChk 1 true; LPut 1 sb1; LEmpty false; LReady true; LGet sa1; LPendRd false; LBaseRd B10;
   LWrite (frame B10 sa1) (Accept 100); LSelect; LEmpty false; LReady true; LGet sb1; LPendRd false; LBaseRd B10;
   LWrite (frame B10 sb1) (Accept 4); LChk 0 true; LWrite (skipn 4 (frame B10 sb1)) Neg; LPut 0 sa2;
   LDispErr (SessionClose (skipn 4 (frame B10 sb1))); LClose].
Example C02_sched_ex_failure :
  after (wrun (winit B10 false sx_progs) sx_fail) (fun s =>
    ws_err s = Some (SessionClose (skipn 4 (frame B10 sb1))) /\ ws_conn s = false /\
    ws_wire s = frame B10 sa1 ++ firstn 4 (frame B10 sb1) /\ map put_of (ws_q s) = [(0%nat, sa2)] /\
    wstep s (LChk 0 true) = None /\ wstep s (LEmpty false) = None).
Proof. vm_compute. repeat split; reflexivity. Qed.
(* the same with a write call answered by None: the error carries the whole unsent rest, nothing is written afterwards *)
Example C02_sched_ex_nocount :
  after (wrun (winit B10 false sx_progs)
    [LChk 0 true; LPut 0 sa1; LChk 1 true; LPut 1 sb1; LEmpty false; LReady true; LGet sa1; LPendRd false; LBaseRd B10;
     LWrite (frame B10 sa1) (Accept 3); LWrite (skipn 3 (frame B10 sa1)) NoCount;
     LDispErr (CompareExc (skipn 3 (frame B10 sa1))); LClose]) (fun s =>
    ws_err s = Some (CompareExc (skipn 3 (frame B10 sa1))) /\ ws_conn s = false /\
    ws_wire s = firstn 3 (frame B10 sa1) /\ map put_of (ws_q s) = [(1%nat, sb1)] /\
    wstep s (LWrite (skipn 3 (frame B10 sa1)) (Accept 100)) = None /\ wstep s (LEmpty false) = None).
Proof. vm_compute. repeat split; reflexivity. Qed.
(* the hypotheses of the step bound are satisfiable: 15 worker steps for the 7-octet frame of "a" under 1.0 *)
Definition sx_a : bytes := Eval compute in lit "a"%string.
Definition sx_live : list label :=
  [LEmpty false; LReady true; LGet sx_a; LPendRd false; LBaseRd B10; LWrite (frame B10 sx_a) (Accept 2);
   LWrite (skipn 2 (frame B10 sx_a)) (Accept 9); LSelect; LEmpty true; LSelect; LEmpty true; LSelect; LEmpty true; LSelect; LEmpty true].
Example C02_sched_ex_eventually :
  after (wrun (winit B10 false [[sx_a]]) [LChk 0 true; LPut 0 sx_a]) (fun s => ws_err s = None /\
    after (wrun s sx_live) (fun s' => forallb accepted_write sx_live = true /\
      (cost (lentries B10 [LChk 0 true; LPut 0 sx_a]) + 3 * notready sx_live <=? wsteps sx_live)%nat = true /\
      ws_wire s' = frame B10 sx_a)).
Proof. vm_compute. repeat split; reflexivity. Qed.
