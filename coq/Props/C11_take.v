(* Props/C11_take.v — last sentence of C11: "With nothing queued, take_notification returns None immediately when
   non-blocking, or after the given timeout."  Model: Model/TakeNotif.v (Manager.take_notification ->
   Session.take_notification -> queue.Queue.get; time in ms from the start of the call; the environment of a call = what is
   queued and what the session thread enqueues meanwhile).  The FIFO / exactly-once part is Props/C11.v (C11_take_fifo). *)
From Coq Require Import ZArith.
From NC Require Import Model.Base Model.TakeNotif Proofs.TakeNotifProofs.
Open Scope Z_scope.

(* non-blocking, nothing queued: None at once, whatever the timeout argument and whatever arrives later *)
Theorem C11_take_nonblocking_empty : forall t arr,
  manager_take false t (mkenv [] arr) = Ret None 0.
Proof. exact c11_take_nonblocking_empty. Qed.
Print Assumptions C11_take_nonblocking_empty.

(* blocking with timeout z >= 0, nothing queued and nothing arriving before z: None exactly at z *)
Theorem C11_take_timeout_empty : forall z arr,
  0 <= z -> (forall a n, In (a, n) arr -> z <= a) ->
  manager_take true (TNum z) (mkenv [] arr) = Ret None z.
Proof. exact c11_take_timeout_empty. Qed.
Print Assumptions C11_take_timeout_empty.

(* timeout 0 is a time limit like any other: the call returns at once *)
Theorem C11_take_timeout_zero : forall arr,
  (forall a n, In (a, n) arr -> 0 <= a) ->
  manager_take true (TNum 0) (mkenv [] arr) = Ret None 0.
Proof. exact c11_take_timeout_zero. Qed.
Print Assumptions C11_take_timeout_zero.

(* a notification arriving inside the timeout is returned when it arrives *)
Theorem C11_take_arrival_in_time : forall z a n arr,
  0 <= a -> a < z ->
  manager_take true (TNum z) (mkenv [] ((a, n) :: arr)) = Ret (Some n) a.
Proof. exact c11_take_arrival_in_time. Qed.
Print Assumptions C11_take_arrival_in_time.

(* blocking without timeout: waits for the next notification, for ever if none comes; never None *)
Theorem C11_take_untimed : forall arr,
  manager_take true TNone (mkenv [] arr) =
  match arr with [] => Blocks | (a, n) :: _ => Ret (Some n) (Z.max 0 a) end.
Proof. exact c11_take_untimed. Qed.
Print Assumptions C11_take_untimed.

Theorem C11_take_untimed_never_none : forall e at_,
  manager_take true TNone e <> Ret None at_.
Proof. exact c11_take_untimed_never_none. Qed.
Print Assumptions C11_take_untimed_never_none.

(* something queued: the head, at once, for every (block, timeout) with a legal timeout; it leaves the queue *)
Theorem C11_take_queued : forall b t n q arr,
  (forall z, b = true -> t = TNum z -> 0 <= z) ->
  manager_take b t (mkenv (n :: q) arr) = Ret (Some n) 0 /\
  queue_after (manager_take b t (mkenv (n :: q) arr)) (mkenv (n :: q) arr) = q.
Proof. exact c11_take_queued. Qed.
Print Assumptions C11_take_queued.

(* converse: None means nothing was queued, and it comes at once (non-blocking) or exactly at the timeout (blocking) *)
Theorem C11_take_none_inv : forall b t e at_,
  manager_take b t e = Ret None at_ ->
  queued e = [] /\
  ((b = false /\ at_ = 0) \/
   (b = true /\ exists z, t = TNum z /\ 0 <= z /\ at_ = z /\
                forall a n, hd_error (arrivals e) = Some (a, n) -> z <= a)).
Proof. exact c11_take_none_inv. Qed.
Print Assumptions C11_take_none_inv.

(* the Manager wrapper and the call forms (positional / keyword / omitted arguments) add nothing to Queue.get *)
Theorem C11_take_wrapper : forall ob ot e,
  manager_call ob ot e =
  match queue_get (match ob with Some b => b | None => true end) (match ot with Some t => t | None => TNone end) e with
  | QItem n a => Ret (Some n) a | QEmpty a => Ret None a | QForever => Blocks | QValueError => RaisesValueError
  end.
Proof. exact c11_take_wrapper. Qed.
Print Assumptions C11_take_wrapper.

(* non-vacuity: a poll with the shortest time limit on a quiet session; a waiting consumer; a filled queue *)
Example C11_take_ex :
  manager_call (Some true) (Some (TNum 0)) (mkenv [] []) = Ret None 0 /\
  manager_call (Some true) (Some (TNum 150)) (mkenv [] [(400, 7%N)]) = Ret None 150 /\
  manager_call None (Some (TNum 3000)) (mkenv [] [(80, 7%N); (90, 8%N)]) = Ret (Some 7%N) 80 /\
  manager_call None None (mkenv [] []) = Blocks /\
  manager_call None None (mkenv [] [(200, 3%N)]) = Ret (Some 3%N) 200 /\
  manager_call (Some false) (Some (TNum 30000)) (mkenv [] [(1, 3%N)]) = Ret None 0 /\
  manager_call (Some false) None (mkenv [4%N; 5%N] []) = Ret (Some 4%N) 0 /\
  queue_after (manager_call (Some true) (Some (TNum 0)) (mkenv [4%N; 5%N] [])) (mkenv [4%N; 5%N] []) = [5%N] /\
  manager_call (Some true) (Some (TNum (-1))) (mkenv [4%N] []) = RaisesValueError.
Proof. vm_compute. repeat split; reflexivity. Qed.
