(* Props/C05.v — property C05: hello exchange and framing-version negotiation.
   Only statements, closed by [exact], each followed by Print Assumptions.
   Model: Model/Negotiate.v (Session._post_connect, HelloHandler, the framing decision of the
   send branch, devices/*.py get_capabilities) AFTER the repairs of F13 (18ef3af) and F15 (70a98c3).
   `has11 l`  :=  ':base:1.1' in Capabilities(l)   (Model/Caps.v; C08's theorems give its meaning). *)
From Coq Require Import String.
From NC Require Import Model.Base Model.Lit Model.Caps Model.Writer Model.Negotiate.
From NC Require Import Spec.CapsSpec Proofs.NegotiateProofs.
From NC Require Import Model.HelloWait Spec.HelloWaitSpec Proofs.HelloWaitProofs.

(* In every run of the exchange — any readiness pattern, any arrival order of the server hello, any
   number of server messages, timeouts, worker death — the first frame written is the client
   <hello> (message 0) in end-of-message framing. *)
Theorem C05_first_frame : forall client labels s,
  run_labels true client init labels = Some s ->
  s_wire s = [] \/ exists rest, s_wire s = (B10, 0) :: rest.
Proof. exact c05_first_frame. Qed.
Print Assumptions C05_first_frame.

(* Before the F15 repair the statement is false: not writable at first, server hello processed,
   base switched, then the client hello goes out chunked. *)
Definition ex_server_hello : node :=
  server_hello true (lit "4"%string) [uri_b10; uri_b11].
Theorem C05_first_frame_unfixed_refuted :
  exists s rest, run_labels false base_caps init [LTop false; LRecv (HTree ex_server_hello); LMain; LTop true] = Some s
                 /\ s_wire s = (B11, 0) :: rest.
Proof. eexists. eexists. vm_compute. split; reflexivity. Qed.
Print Assumptions C05_first_frame_unfixed_refuted.

(* Every frame after the hello was written after _post_connect returned normally, and is chunked
   iff both the server's reported capability list and the client's contain base:1.1 ... *)
Theorem C05_iff : forall client labels s,
  run_labels true client init labels = Some s ->
  forall i f m, nth_error (s_wire s) (S i) = Some (f, m) ->
  s_main s = MReturned None /\
  exists sv, s_caps s = Some sv /\ (f = B11 <-> has11 sv /\ has11 client).
Proof. exact c05_iff. Qed.
Print Assumptions C05_iff.

(* ... where "contains base:1.1" is: ':base:1.1' advertised verbatim, or a URI whose namespace part
   begins urn:ietf:params:netconf:base:1.1 or urn:ietf:params:xml:ns:netconf:base:1.1
   (Spec/CapsSpec.v `shorthand`; either URN form). *)
Theorem C05_has11_spec : forall l,
  has11 l <-> (In k11 l \/ exists u, In u l /\ shorthand (ns_part u) k11).
Proof. exact c05_has11_spec. Qed.
Print Assumptions C05_has11_spec.

Theorem C05_choose_total : forall server client, exists b, choose_base server client = Ok b.
Proof. exact c05_choose_total. Qed.
Print Assumptions C05_choose_total.

(* Before the F13 repair: both peers advertise base:1.1, the server in the xml:ns form, 1.0 kept. *)
Theorem C05_iff_unfixed_refuted :
  choose_base_unfixed [uri_b10x; uri_b11x] base_caps = Ok B10
  /\ choose_base [uri_b10x; uri_b11x] base_caps = Ok B11.
Proof. vm_compute. split; reflexivity. Qed.
Print Assumptions C05_iff_unfixed_refuted.

(* What HelloHandler.parse reports for a server hello is the server's session-id and its
   capability list (as a Capabilities object: duplicates collapse onto the first position). *)
Theorem C05_reports : forall qual sid_text uris,
  parse_hello (server_hello qual sid_text uris) = Ok (SidText (Some sid_text), map fst (caps_of uris)).
Proof. exact c05_reports. Qed.
Print Assumptions C05_reports.

(* The client hello lists exactly the keys of the client Capabilities object. *)
Theorem C05_hello_lists_client_caps : forall client,
  parse_hello (build client) = Ok (SidDefault, map fst (caps_of (map fst (caps_of client)))).
Proof. exact c05_build_lists. Qed.
Print Assumptions C05_hello_lists_client_caps.

(* No hang, no success without a hello: once the deadline label occurred _post_connect has returned;
   without a well-formed server hello it never returns normally; if the worker dies before one was
   processed it never returns normally. *)
Theorem C05_no_hang : forall client labels s,
  run_labels true client init labels = Some s ->
  (In LTimeout labels -> exists r, s_main s = MReturned r) /\
  ((forall l, In l labels -> ~ good l) -> s_main s <> MReturned None) /\
  (forall pre post, labels = pre ++ LDie :: post -> (forall l, In l pre -> ~ good l) -> s_main s <> MReturned None).
Proof. exact c05_no_hang. Qed.
Print Assumptions C05_no_hang.

(* Every profile's client list contains a base URI, whatever the user adds (nc_params). *)
Theorem C05_client_caps_base : forall p extra,
  contains_key (caps_of (profile_caps p extra)) k_base = Ok true.
Proof. exact c05_client_caps_base. Qed.
Print Assumptions C05_client_caps_base.

(* -------- non-vacuity -------- *)
(* the F15 order on the repaired system: hello in 1.0 framing, later requests chunked *)
Example C05_ex_blocked :
  exists s, run_labels true base_caps init [LTop false; LRecv (HTree ex_server_hello); LMain; LTop true; LPut 1; LPut 2; LTop true; LTop true] = Some s
            /\ s_wire s = [(B10, 0); (B11, 1); (B11, 2)] /\ s_main s = MReturned None
            /\ s_sid s = SidText (Some (lit "4"%string)).
Proof. eexists. vm_compute. repeat split; reflexivity. Qed.
Example C05_ex_alu_stays_10 :
  exists s, run_labels true (profile_caps PAlu []) init [LTop true; LRecv (HTree ex_server_hello); LMain; LPut 1; LTop true] = Some s
            /\ s_wire s = [(B10, 0); (B10, 1)].
Proof. eexists. vm_compute. split; reflexivity. Qed.
Example C05_ex_timeout :
  exists s, run_labels true base_caps init [LTop true; LRecv HOther; LTimeout] = Some s /\ s_main s = MReturned (Some ETimeout).
Proof. eexists. vm_compute. split; reflexivity. Qed.
Example C05_ex_die :
  exists s, run_labels true base_caps init [LTop true; LDie; LMain] = Some s /\ s_main s = MReturned (Some ESessionClose).
Proof. eexists. vm_compute. split; reflexivity. Qed.
Example C05_ex_empty_capability :
  exists s, run_labels true base_caps init
              [LRecv (HTree (Node (qualify t_hello) None [Node (qualify t_capabilities) None [Node (qualify t_capability) None []]])); LMain] = Some s
            /\ s_main s = MReturned (Some EParse).
Proof. eexists. vm_compute. split; reflexivity. Qed.
Example C05_ex_has11_xmlns : has11 [uri_b10x; uri_b11x] /\ ~ has11 [uri_b10; lit "urn:ietf:params:netconf:base:1.10"%string].
Proof. split; [vm_compute; reflexivity|]. vm_compute. discriminate. Qed.
Example C05_ex_good : good (LRecv (HTree ex_server_hello)).
Proof. exists ex_server_hello. eexists. eexists. split; [reflexivity|]. vm_compute. reflexivity. Qed.

(* ================================================================================================
   The same clauses on the TWO-THREAD transition system Model/NegotiateSched.v: one label per access
   to a field shared by the connecting thread (Session._post_connect, later Session.send) and the
   worker (Session.run, _dispatch_message/_dispatch_error, HelloHandler, ok_cb/err_cb).  `run_flabels`
   accepts a label sequence iff every label is the next statement of its thread and its enabling fact
   holds; the theorems quantify over ALL accepted sequences, i.e. over every interleaving of the two
   threads, every readiness pattern, every arrival time and number of server messages, deadline,
   write fault, EOF and read error.  tools/harness/neg_sched.py runs the real code under a
   deterministic scheduler at exactly this granularity and validates every effect trace against
   `fstep` (tools/harness/neg_check.py).
   ================================================================================================ *)
From NC Require Import Model.NegotiateSched Proofs.NegotiateSchedProofs.

(* Under every interleaving the first frame on the wire is the client <hello> in end-of-message framing. *)
Theorem C05_sched_first_frame : forall client labels s,
  run_flabels client finit labels = Some s ->
  f_wire s = [] \/ exists rest, f_wire s = (B10, 0) :: rest.
Proof. exact fc05_first_frame. Qed.
Print Assumptions C05_sched_first_frame.

(* Every later frame was framed with the final base, after _post_connect had returned normally, and is
   chunked iff the server list the decision read and the client list both contain base:1.1. *)
Theorem C05_sched_iff : forall client labels s,
  run_flabels client finit labels = Some s ->
  forall i f m, nth_error (f_wire s) (S i) = Some (f, m) ->
  f_m s = MDone None /\ exists sv, f_chosen s = Some sv /\ (f = B11 <-> has11 sv /\ has11 client).
Proof. exact fc05_iff. Qed.
Print Assumptions C05_sched_iff.

(* No request frame before the switch decision: until _post_connect has returned normally at most one
   frame (the hello, by C05_sched_first_frame) is on the wire.  (Applied to every prefix of a run.) *)
Theorem C05_sched_before_return : forall client labels s,
  run_flabels client finit labels = Some s ->
  f_m s <> MDone None -> (length (f_wire s) <= 1)%nat.
Proof. exact fc05_before_return. Qed.
Print Assumptions C05_sched_before_return.

(* _base is 1.1 only after the decision, and then iff both sides advertise base:1.1. *)
Theorem C05_sched_base : forall client labels s,
  run_flabels client finit labels = Some s ->
  (f_base s = B11 -> exists sv, f_chosen s = Some sv /\ has11 sv /\ has11 client) /\
  (f_m s = MDone None -> exists sv, f_chosen s = Some sv /\ (f_base s = B11 <-> has11 sv /\ has11 client)).
Proof. exact fc05_base. Qed.
Print Assumptions C05_sched_base.

(* The list the decision read is the capability list of a <hello> the worker dispatched. *)
Theorem C05_sched_chosen_from_hello : forall client labels s,
  run_flabels client finit labels = Some s ->
  forall sv, f_chosen s = Some sv ->
  exists t sd, In (FWDisp (HTree t)) labels /\ parse_hello t = Ok (sd, sv).
Proof. exact fc05_chosen_from_hello. Qed.
Print Assumptions C05_sched_chosen_from_hello.

(* When the server sends one <hello> (as the protocol demands), at the normal return of _post_connect
   _id and _server_capabilities ARE assigned, are those of that hello, and the decision read them. *)
Theorem C05_sched_reports : forall client labels s,
  run_flabels client finit labels = Some s ->
  (length (hellos labels) <= 1)%nat -> f_m s = MDone None ->
  exists t sv, hellos labels = [t] /\ parse_hello t = Ok (f_sid s, sv) /\ f_caps s = Some sv /\ f_chosen s = Some sv.
Proof. exact fc05_reports. Qed.
Print Assumptions C05_sched_reports.

(* ok_cb / err_cb publish before they signal: the connecting thread never finds `_server_capabilities`
   unset after the event (no TypeError out of `':base:1.1' in None`), under any interleaving. *)
Theorem C05_sched_no_typeerror : forall client labels s,
  run_flabels client finit labels = Some s ->
  f_m s <> M9 (Some EChoose) /\ f_m s <> MDone (Some EChoose).
Proof. exact fc05_no_typeerror. Qed.
Print Assumptions C05_sched_no_typeerror.

(* connect fails instead of succeeding half-initialised: no normal return without a well-formed server
   hello having been dispatched; none if the transport died (EOF / read error) before one was. *)
Theorem C05_sched_needs_hello : forall client labels s,
  run_flabels client finit labels = Some s ->
  (forall l, In l labels -> ~ fgood l) -> f_m s <> MDone None.
Proof. exact fc05_needs_hello. Qed.
Print Assumptions C05_sched_needs_hello.

Theorem C05_sched_die_first : forall client pre e post s,
  run_flabels client finit (pre ++ FWDie e :: post) = Some s ->
  (forall l, In l pre -> ~ fgood l) -> f_m s <> MDone None.
Proof. exact fc05_die_first. Qed.
Print Assumptions C05_sched_die_first.

(* connect does not hang: whatever the worker does, the connecting thread always has an enabled step
   until it has left _post_connect (at the wait: woken by the event, or the deadline label FMWait false,
   which is enabled whenever the event is not set), and it takes at most 10 steps in any run. *)
Theorem C05_sched_main_never_blocked : forall client labels s,
  run_flabels client finit labels = Some s -> (forall r, f_m s <> MDone r) ->
  exists l s', is_mlabel l = true /\ fstep client s l = Some s'.
Proof. exact fc05_main_never_blocked. Qed.
Print Assumptions C05_sched_main_never_blocked.

Theorem C05_sched_main_bounded : forall client labels s,
  run_flabels client finit labels = Some s -> (count_m labels <= 10)%nat.
Proof. exact fc05_main_bounded. Qed.
Print Assumptions C05_sched_main_bounded.

(* -------- non-vacuity: accepted and rejected interleavings -------- *)
Definition start4 : list flabel := [FMReg; FMPend; FMPutHello; FMStart].
Definition okcb : list flabel := [FWDisp (HTree ex_server_hello); FWSid; FWCaps; FWEvSet].
(* the F15 order: transport not writable until _post_connect returned *)
Example C05_sched_ex_blocked :
  exists s, run_flabels base_caps finit
    (start4 ++ okcb ++ [FMWait true; FMIsSet true; FMUnreg; FMCaps; FMBase; FMRet;
                        FWGet 0; FWPendRd true; FWPendClr; FWWrite; FMPut 1; FWGet 1; FWPendRd false; FWBaseRd B11; FWWrite]) = Some s
  /\ f_wire s = [(B10, 0); (B11, 1)] /\ f_m s = MDone None /\ f_sid s = SidText (Some (lit "4"%string)).
Proof. eexists. vm_compute. repeat split; reflexivity. Qed.
(* _base is switched between the worker's dequeue of the hello and its write *)
Example C05_sched_ex_switch_during_hello_write :
  exists s, run_flabels base_caps finit
    (start4 ++ okcb ++ [FMWait true; FWGet 0; FMIsSet true; FWPendRd true; FMUnreg; FMCaps; FWPendClr; FMBase; FWWrite; FMRet]) = Some s
  /\ f_wire s = [(B10, 0)] /\ f_base s = B11 /\ f_m s = MDone None.
Proof. eexists. vm_compute. repeat split; reflexivity. Qed.
(* the deadline passes, the event is set before `is_set()` is evaluated: connect succeeds *)
Example C05_sched_ex_deadline_race :
  exists s, run_flabels base_caps finit (start4 ++ [FMWait false] ++ okcb ++ [FMIsSet true; FMUnreg; FMCaps; FMBase; FMRet]) = Some s
  /\ f_m s = MDone None.
Proof. eexists. vm_compute. split; reflexivity. Qed.
Example C05_sched_ex_timeout :
  exists s, run_flabels base_caps finit (start4 ++ [FWGet 0; FWPendRd true; FWPendClr; FWWrite; FMWait false; FMIsSet false; FMRet]) = Some s
  /\ f_m s = MDone (Some ETimeout) /\ f_wire s = [(B10, 0)].
Proof. eexists. vm_compute. repeat split; reflexivity. Qed.
Example C05_sched_ex_die :
  exists s, run_flabels base_caps finit
    (start4 ++ [FWDie ESessionClose; FWBcast; FWErrCb; FWEvSet; FMWait true; FMIsSet true; FMUnreg; FMRet; FWClose; FWExit]) = Some s
  /\ f_m s = MDone (Some ESessionClose) /\ f_conn s = false /\ f_w s = WDone.
Proof. eexists. vm_compute. repeat split; reflexivity. Qed.
(* programs with another order of the same statements are NOT runs of the system: signalling before publishing,
   queueing the hello before the flag is set, starting the worker before the handler is registered *)
Example C05_sched_ex_rejected :
  run_flabels base_caps finit (start4 ++ [FWDisp (HTree ex_server_hello); FWSid; FWEvSet]) = None
  /\ run_flabels base_caps finit [FMReg; FMPutHello] = None
  /\ run_flabels base_caps finit [FMStart] = None.
Proof. vm_compute. repeat split; reflexivity. Qed.
(* why C05_sched_reports asks for one server hello: with two, the connecting thread can return between the two
   assignments of the second ok_cb (session id of the second hello, capabilities of the first) *)
Definition ex_second_hello : node := server_hello true (lit "9"%string) [uri_b10].
Example C05_sched_ex_two_hellos_torn :
  exists s, run_flabels base_caps finit
    (start4 ++ okcb ++ [FMWait true; FMIsSet true; FWDisp (HTree ex_second_hello); FWSid; FMUnreg; FMCaps; FMBase; FMRet]) = Some s
  /\ f_m s = MDone None /\ f_sid s = SidText (Some (lit "9"%string)) /\ f_caps s = Some [uri_b10; uri_b11].
Proof. eexists. vm_compute. repeat split; reflexivity. Qed.
Example C05_sched_ex_good : fgood (FWDisp (HTree ex_server_hello)).
Proof. exists ex_server_hello. eexists. eexists. split; [reflexivity|]. vm_compute. reflexivity. Qed.

(* ================= the deadline of the wait for the server hello (Model/HelloWait.v) =================
   "if no hello arrives within the timeout ... connect fails instead of hanging": C05_no_hang / C05_sched_main_never_blocked
   say that the deadline label ends the wait; these theorems say WHICH deadline init_event.wait gets, for every entry point
   (connect_ssh, connect, connect_tls, connect_uds) and every way the caller can pass a timeout. *)

(* A timeout the caller stated — positionally or as keyword, with or without manager_params — is the deadline. *)
Theorem C05_wait_requested : forall e a t,
  wf a -> requested a = Some t -> hello_wait e a = Bounded t.
Proof. exact c05_wait_requested. Qed.
Print Assumptions C05_wait_requested.

(* When the caller stated none (nothing, timeout=None, manager_params only) the documented default applies. *)
Theorem C05_wait_default : forall e a,
  wf a -> requested a = None -> hello_wait e a = Bounded (default_wait e a).
Proof. exact c05_wait_default. Qed.
Print Assumptions C05_wait_default.

(* Hence the wait is never Event.wait(None). *)
Theorem C05_wait_bounded : forall e a, wf a -> exists t, hello_wait e a = Bounded t.
Proof. exact c05_wait_bounded. Qed.
Print Assumptions C05_wait_bounded.

(* manager_params['timeout'] is the Manager's RPC timeout: it never changes the connect deadline, and the Manager gets
   it, else the connect keyword, else 30 s. *)
Theorem C05_wait_ignores_manager_params : forall e a m, hello_wait e (with_mp a m) = hello_wait e a.
Proof. exact c05_wait_ignores_manager_params. Qed.
Print Assumptions C05_wait_ignores_manager_params.
Theorem C05_manager_timeout : forall a,
  manager_timeout a = match a_mp a with
                      | Some m => m
                      | None => match a_kw a with Some v => v | None => PNum default_manager_ms end
                      end.
Proof. exact c05_manager_timeout. Qed.
Print Assumptions C05_manager_timeout.

(* Before the two repairs the statements are false: connect_tls(timeout=2 s) waited 60 s, connect_ssh() without a
   timeout waited for ever. *)
Theorem C05_wait_unfixed_refuted :
  hello_wait_unfixed EConnectTls {| a_pos := None; a_kw := Some (PNum 2000); a_mp := None; a_cfg := None |} = Bounded 60000
  /\ hello_wait_unfixed EConnectUds {| a_pos := Some (PNum 300000); a_kw := None; a_mp := None; a_cfg := None |} = Bounded 60000
  /\ hello_wait_unfixed EConnectSsh {| a_pos := None; a_kw := None; a_mp := Some (PNum 5000); a_cfg := None |} = Unbounded.
Proof. vm_compute. repeat split; reflexivity. Qed.
Print Assumptions C05_wait_unfixed_refuted.

(* A helper that removes 'timeout' from kwds while copying it into manager_params loses the caller's timeout on SSH. *)
Theorem C05_wait_pop_loses : forall t,
  let a := {| a_pos := None; a_kw := Some (PNum t); a_mp := None; a_cfg := None |} in
  hello_wait_gen true true true EConnectSsh a = Bounded default_hello_ms /\
  hello_wait_gen true true false EConnectSsh a = Unbounded /\
  hello_wait EConnectSsh a = Bounded t.
Proof. exact c05_wait_pop_loses. Qed.
Print Assumptions C05_wait_pop_loses.

(* non-vacuity: each way on a concrete call *)
Example C05_wait_ex :
  hello_wait EConnectSsh {| a_pos := None; a_kw := Some (PNum 2000); a_mp := Some (PNum 10000); a_cfg := Some 7000 |} = Bounded 2000
  /\ hello_wait EConnect {| a_pos := None; a_kw := None; a_mp := Some (PNum 10000); a_cfg := Some 7000 |} = Bounded 7000
  /\ hello_wait EConnectSsh {| a_pos := None; a_kw := Some PNone; a_mp := None; a_cfg := None |} = Bounded 60000
  /\ hello_wait EConnectTls {| a_pos := Some (PNum 500); a_kw := None; a_mp := Some (PNum 10000); a_cfg := None |} = Bounded 500
  /\ hello_wait EConnectTls {| a_pos := None; a_kw := None; a_mp := None; a_cfg := None |} = Bounded 120000
  /\ hello_wait EConnectUds {| a_pos := None; a_kw := Some PNone; a_mp := None; a_cfg := None |} = Bounded 60000
  /\ manager_timeout {| a_pos := None; a_kw := Some (PNum 2000); a_mp := None; a_cfg := None |} = PNum 2000
  /\ manager_timeout {| a_pos := Some (PNum 2000); a_kw := None; a_mp := None; a_cfg := None |} = PNum 30000.
Proof. vm_compute. repeat split; reflexivity. Qed.
