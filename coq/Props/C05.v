(* Props/C05.v — property C05: hello exchange and framing-version negotiation.
   Only statements, closed by [exact], each followed by Print Assumptions.
   Model: Model/Negotiate.v (Session._post_connect, HelloHandler, the framing decision of the
   send branch, devices/*.py get_capabilities) AFTER the repairs of F13 (18ef3af) and F15 (70a98c3).
   `has11 l`  :=  ':base:1.1' in Capabilities(l)   (Model/Caps.v; C08's theorems give its meaning). *)
From Coq Require Import String.
From NC Require Import Model.Base Model.Lit Model.Caps Model.Writer Model.Negotiate.
From NC Require Import Spec.CapsSpec Proofs.NegotiateProofs.

(* In every run of the exchange — any readiness pattern, any arrival order of the server hello, any
   number of server messages, timeouts, worker death — the first frame written is the client
   <hello> (message 0) in end-of-message framing. *)
Theorem C05_first_frame : forall client labels s,
  run_labels true client init labels = Some s ->
  s_wire s = [] \/ exists rest, s_wire s = (B10, 0) :: rest.
Proof. exact c05_first_frame. Qed.
Print Assumptions C05_first_frame.

(* Before the F15 repair the statement is false: not writable at first, server hello processed,
   base switched, then the client hello goes out chunked. *)
Definition ex_server_hello : node :=
  server_hello true (lit "4"%string) [uri_b10; uri_b11].
Theorem C05_first_frame_unfixed_refuted :
  exists s rest, run_labels false base_caps init [LTop false; LRecv (HTree ex_server_hello); LMain; LTop true] = Some s
                 /\ s_wire s = (B11, 0) :: rest.
Proof. eexists. eexists. vm_compute. split; reflexivity. Qed.
Print Assumptions C05_first_frame_unfixed_refuted.

(* Every frame after the hello was written after _post_connect returned normally, and is chunked
   iff both the server's reported capability list and the client's contain base:1.1 ... *)
Theorem C05_iff : forall client labels s,
  run_labels true client init labels = Some s ->
  forall i f m, nth_error (s_wire s) (S i) = Some (f, m) ->
  s_main s = MReturned None /\
  exists sv, s_caps s = Some sv /\ (f = B11 <-> has11 sv /\ has11 client).
Proof. exact c05_iff. Qed.
Print Assumptions C05_iff.

(* ... where "contains base:1.1" is: ':base:1.1' advertised verbatim, or a URI whose namespace part
   begins urn:ietf:params:netconf:base:1.1 or urn:ietf:params:xml:ns:netconf:base:1.1
   (Spec/CapsSpec.v `shorthand`; either URN form). *)
Theorem C05_has11_spec : forall l,
  has11 l <-> (In k11 l \/ exists u, In u l /\ shorthand (ns_part u) k11).
Proof. exact c05_has11_spec. Qed.
Print Assumptions C05_has11_spec.

Theorem C05_choose_total : forall server client, exists b, choose_base server client = Ok b.
Proof. exact c05_choose_total. Qed.
Print Assumptions C05_choose_total.

(* Before the F13 repair: both peers advertise base:1.1, the server in the xml:ns form, 1.0 kept. *)
Theorem C05_iff_unfixed_refuted :
  choose_base_unfixed [uri_b10x; uri_b11x] base_caps = Ok B10
  /\ choose_base [uri_b10x; uri_b11x] base_caps = Ok B11.
Proof. vm_compute. split; reflexivity. Qed.
Print Assumptions C05_iff_unfixed_refuted.

(* What HelloHandler.parse reports for a server hello is the server's session-id and its
   capability list (as a Capabilities object: duplicates collapse onto the first position). *)
Theorem C05_reports : forall qual sid_text uris,
  parse_hello (server_hello qual sid_text uris) = Ok (SidText (Some sid_text), map fst (caps_of uris)).
Proof. exact c05_reports. Qed.
Print Assumptions C05_reports.

(* The client hello lists exactly the keys of the client Capabilities object. *)
Theorem C05_hello_lists_client_caps : forall client,
  parse_hello (build client) = Ok (SidDefault, map fst (caps_of (map fst (caps_of client)))).
Proof. exact c05_build_lists. Qed.
Print Assumptions C05_hello_lists_client_caps.

(* No hang, no success without a hello: once the deadline label occurred _post_connect has returned;
   without a well-formed server hello it never returns normally; if the worker dies before one was
   processed it never returns normally. *)
Theorem C05_no_hang : forall client labels s,
  run_labels true client init labels = Some s ->
  (In LTimeout labels -> exists r, s_main s = MReturned r) /\
  ((forall l, In l labels -> ~ good l) -> s_main s <> MReturned None) /\
  (forall pre post, labels = pre ++ LDie :: post -> (forall l, In l pre -> ~ good l) -> s_main s <> MReturned None).
Proof. exact c05_no_hang. Qed.
Print Assumptions C05_no_hang.

(* Every profile's client list contains a base URI, whatever the user adds (nc_params). *)
Theorem C05_client_caps_base : forall p extra,
  contains_key (caps_of (profile_caps p extra)) k_base = Ok true.
Proof. exact c05_client_caps_base. Qed.
Print Assumptions C05_client_caps_base.

(* -------- non-vacuity -------- *)
(* the F15 order on the repaired system: hello in 1.0 framing, later requests chunked *)
Example C05_ex_blocked :
  exists s, run_labels true base_caps init [LTop false; LRecv (HTree ex_server_hello); LMain; LTop true; LPut 1; LPut 2; LTop true; LTop true] = Some s
            /\ s_wire s = [(B10, 0); (B11, 1); (B11, 2)] /\ s_main s = MReturned None
            /\ s_sid s = SidText (Some (lit "4"%string)).
Proof. eexists. vm_compute. repeat split; reflexivity. Qed.
Example C05_ex_alu_stays_10 :
  exists s, run_labels true (profile_caps PAlu []) init [LTop true; LRecv (HTree ex_server_hello); LMain; LPut 1; LTop true] = Some s
            /\ s_wire s = [(B10, 0); (B10, 1)].
Proof. eexists. vm_compute. split; reflexivity. Qed.
Example C05_ex_timeout :
  exists s, run_labels true base_caps init [LTop true; LRecv HOther; LTimeout] = Some s /\ s_main s = MReturned (Some ETimeout).
Proof. eexists. vm_compute. split; reflexivity. Qed.
Example C05_ex_die :
  exists s, run_labels true base_caps init [LTop true; LDie; LMain] = Some s /\ s_main s = MReturned (Some ESessionClose).
Proof. eexists. vm_compute. split; reflexivity. Qed.
Example C05_ex_empty_capability :
  exists s, run_labels true base_caps init
              [LRecv (HTree (Node (qualify t_hello) None [Node (qualify t_capabilities) None [Node (qualify t_capability) None []]])); LMain] = Some s
            /\ s_main s = MReturned (Some EParse).
Proof. eexists. vm_compute. split; reflexivity. Qed.
Example C05_ex_has11_xmlns : has11 [uri_b10x; uri_b11x] /\ ~ has11 [uri_b10; lit "urn:ietf:params:netconf:base:1.10"%string].
Proof. split; [vm_compute; reflexivity|]. vm_compute. discriminate. Qed.
Example C05_ex_good : good (LRecv (HTree ex_server_hello)).
Proof. exists ex_server_hello. eexists. eexists. split; [reflexivity|]. vm_compute. reflexivity. Qed.
