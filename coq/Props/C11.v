(* Props/C11.v — notifications are queued exactly once, in order, without disturbing RPCs.
   Model: Model/SessionLTS.v; the device profile enters through [qualify] (perform_qualify_check). *)
From NC Require Import Model.Base Model.SessionLTS Proofs.SessionLTSProofs.

(* At every reachable state, for both kinds of profile: what was taken, followed by what is queued,
   followed by the notification being enqueued right now (if any), is exactly the sequence of notifications
   dispatched so far — each once, in arrival order. *)
Theorem C11_queue_history : forall s,
  reach s -> taken s ++ nq s ++ pend_notif (pc s) = recv_notifs s.
Proof. exact c11_queue_history. Qed.
Print Assumptions C11_queue_history.

(* Dispatching a notification touches no request, no table entry, not the connection ... *)
Theorem C11_not_a_reply : forall s n s',
  step s (LRecv 2 n) = Some s' ->
  reqs s' = reqs s /\ table s' = table s /\ connected s' = connected s /\ deliver_log s' = deliver_log s /\
  pc s' = WNotif n.
Proof. exact c11_not_a_reply. Qed.
Print Assumptions C11_not_a_reply.

(* ... and the only thing the worker can do next is enqueue it and return to the idle loop: no lookup,
   no delivery, no error path (whatever [qualify] is). *)
Theorem C11_enqueue_only : forall s n l s',
  pc s = WNotif n -> step s l = Some s' ->
  (l = LNqPut n /\ pc s' = WIdle /\ nq s' = nq s ++ [n] /\ reqs s' = reqs s /\ table s' = table s /\
   connected s' = connected s)
  \/ pc s' = WNotif n.
Proof. exact c11_enqueue_only. Qed.
Print Assumptions C11_enqueue_only.

(* take_notification returns the head of the queue (FIFO), and None only when nothing is queued. *)
Theorem C11_take_fifo : forall s got n s',
  step s (LTake got n) = Some s' ->
  (got = true /\ exists t, nq s = n :: t /\ nq s' = t /\ taken s' = taken s ++ [n]) \/
  (got = false /\ nq s = [] /\ s' = s).
Proof. exact c11_take_fifo. Qed.
Print Assumptions C11_take_fifo.

(* Non-vacuity: a profile without tag check (junos-like, qualify = false), notifications interleaved with a
   reply; the request completes with its own reply, the notifications come out in order. *)
Example C11_ex :
  match run (init false)
          [ LReg 0 100; LChk 0 true; LPut 0; LDeq 0; LRecv 2 1; LNqPut 1; LTake true 1;
            LRecv 0 100; LTGet 100 true; LRecv 2 2 ] with
  | Some _ => False | None => True end /\
  match run (init false)
          [ LReg 0 100; LChk 0 true; LPut 0; LDeq 0; LRecv 2 1; LNqPut 1; LTake true 1;
            LRecv 0 100; LTGet 100 true; LEvSetReply 0; LTDel 100; LRecv 2 2; LNqPut 2; LRecv 2 3; LNqPut 3;
            LWaitRes 0 true; LTake true 2; LTake false 0 ] with
  | Some _ => False
  | None => True
  end /\
  match run (init false)
          [ LReg 0 100; LChk 0 true; LPut 0; LDeq 0; LRecv 2 1; LNqPut 1; LTake true 1;
            LRecv 0 100; LTGet 100 true; LEvSetReply 0; LTDel 100; LRecv 2 2; LNqPut 2; LRecv 2 3; LNqPut 3;
            LWaitRes 0 true; LTake true 2 ] with
  | Some s => taken s = [1; 2] /\ nq s = [3] /\ recv_notifs s = [1; 2; 3] /\ connected s = true /\
              map r_st (reqs s) = [CDone (OReply 100)]
  | None => False
  end.
Proof. vm_compute. repeat split; reflexivity. Qed.
