(* Props/C11_sax.v — C11 "for every device profile ... a notification never terminates the session", Junos profile in
   streaming-filter mode (device_params use_filter=True: the SAX parser of transport/third_party/junos/parser.py).
   Model: Model/SaxFilter.v (class SAXParser as repaired by the fix of finding C11-sax-notification).  A message whose
   document element is not <rpc-reply> / <nc:rpc-reply> makes the handler raise the switch signal
   (SAXFilterXMLNotFoundError) at its first start tag, before anything is written; JunosXMLParser.parse
   (Model/JunosParse.v, property C18) then hands the whole message to DOM parsing exactly as for a reply to a request
   without filter, so the notification reaches the NotificationHandler through Session._dispatch_message. *)
From Coq Require Import String.
From NC Require Import Model.Base Model.Lit Model.SaxFilter Proofs.SaxRootlessProofs.

(* "_root is None implies _cur is None and nothing is being skipped" holds initially and after every handler event *)
Theorem C11_sax_rootless_invariant : forall e evs o s',
  exec e init evs = (o, Fin s') -> rootless_inv s'.
Proof. intros e evs o s' H. exact (rootless_inv_exec e evs init o s' rootless_inv_init H). Qed.
Print Assumptions C11_sax_rootless_invariant.

(* in every such state a start tag that is not a reply tag raises the switch signal and writes nothing *)
Theorem C11_sax_rootless_switch : forall e s tag a,
  rootless_inv s -> roottag s = None -> is_reply tag = false ->
  step e s (Start tag a) = Raise ESwitch [].
Proof. exact c11_sax_rootless_switch. Qed.
Print Assumptions C11_sax_rootless_switch.

(* a whole <notification> (any message that is not a reply) given to a fresh handler: switch, empty output,
   whatever listeners and pending requests exist *)
Theorem C11_sax_nonreply_doc : forall e tag a rest,
  is_reply tag = false -> runb e init (Start tag a :: rest) = ([], Raised ESwitch).
Proof. exact c11_sax_nonreply_doc. Qed.
Print Assumptions C11_sax_nonreply_doc.

(* non-vacuity *)
Example C11_sax_ex :
  let n := lit "notification"%string in
  is_reply n = false /\
  runb (mkenv true []) init [Start n [(lit "xmlns"%string, lit "urn:ietf:params:xml:ns:netconf:notification:1.0"%string)];
                             Start (lit "eventTime"%string) []; Chars (lit "2026-10-01T00:00:00Z"%string);
                             End (lit "eventTime"%string); End n] = ([], Raised ESwitch).
Proof. vm_compute. split; reflexivity. Qed.
