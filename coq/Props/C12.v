(* Props/C12.v — property C12: closing a session releases it completely on every transport.
   Only statements, closed by [exact], each followed by Print Assumptions.
   Model: Model/Close.v (labelled transition system of one session's life-cycle; the three
   close() bodies, Session.run, CloseSession.request, Manager.__exit__, connect_* cleanup).
   Spec: Spec/CloseSpec.v.  Every theorem quantifies over the transport t and over ALL label
   sequences accepted from the initial state (all interleavings of client and worker steps,
   all answers of select/recv, any number of in-flight requests).
   PARTIAL by nature (DESIGN 5 C12, 8): what the kernel, epoll, OpenSSL and paramiko do when a
   handle is closed enters as the oracle hypotheses O1-O6 stated at the top of Model/Close.v
   (built into [step]: no Axiom, no Parameter); tools/props/c12.py validates them on real
   Unix/TLS/SSH connections. *)
From NC Require Import Model.Base Model.Close Spec.CloseSpec Proofs.CloseProofs Proofs.CloseThms Proofs.CloseSsh.
From NC Require Import Proofs.CloseWake.
From NC Require Import Model.CloseCallers Proofs.CloseCallersProofs.

(* after close() returned to a client thread the session reports itself disconnected *)
Theorem C12_disconnected : forall t ls s,
  run_of t ls s -> closed_returned ls -> connected s = false.
Proof. exact c12_disconnected. Qed.
Print Assumptions C12_disconnected.

(* ... its socket / transport is closed, and (O2) the peer has seen the connection close *)
Theorem C12_peer_sees_close : forall t ls s,
  run_of t ls s -> closed_returned ls -> socket_open s = false /\ peer_saw_eof s = true.
Proof. exact c12_peer_sees_close. Qed.
Print Assumptions C12_peer_sees_close.

(* ... the worker thread has ended (or was never started: connect failed before the thread start) *)
Theorem C12_worker_exits : forall t ls s,
  run_of t ls s -> closed_returned ls ->
  not_alive (worker s) = true /\ (In Start ls -> worker s = WExited).
Proof. exact c12_worker_exited. Qed.
Print Assumptions C12_worker_exits.

(* Bound (TLS and Unix sockets; for SSH see C12_ssh_bound below): once the closing flag
   is set and the handle closed, the worker begins at most ONE more select (one more loop
   iteration) ... *)
Theorem C12_worker_exits_one_iteration : forall t ls s,
  run_of t ls s -> is_ssh t = false -> (sel_after_close s <= 1)%N.
Proof. exact c12_worker_one_iteration. Qed.
Print Assumptions C12_worker_exits_one_iteration.

(* ... and in any continuation it performs at most wfuel (<= 17 outside a nested close(), <= 23
   always) steps plus 9 per message that had already been read and is still dispatched ... *)
Theorem C12_worker_exits_bound : forall t ls0 s ls s',
  run_of t ls0 s -> is_ssh t = false ->
  closing s = true -> socket_open s = false -> worker s <> WNotStarted ->
  accepts s ls = Some s' ->
  (count is_plain_worker_label ls <= wfuel (worker s) + 9 * count is_dispatch_label ls)%nat.
Proof. exact c12_worker_exits_bound. Qed.
Print Assumptions C12_worker_exits_bound.

(* ... while never being stuck: until it has ended one of its own steps is enabled - with ONE
   exception: asleep inside a transport read (WBlocked: select reported the handle readable, recv
   has nothing to return, the peer is silent) on a handle that is still open. *)
Theorem C12_worker_progress : forall s,
  not_alive (worker s) = false ->
  (worker s = WBlocked /\ socket_open s = true) \/
  exists l, is_worker_label l = true /\ step s l <> None.
Proof. exact c12_worker_progress. Qed.
Print Assumptions C12_worker_progress.

(* In that state NO step of the worker is enabled: the closing flag (or anything else short of
   shutting the handle down) does not end the read ... *)
Theorem C12_blocked_read_needs_wakeup : forall s,
  worker s = WBlocked -> socket_open s = true ->
  forall l, is_worker_label l = true -> step s l = None.
Proof. exact c12_blocked_needs_wakeup. Qed.
Print Assumptions C12_blocked_read_needs_wakeup.

(* ... and - oracle hypothesis (O6), the wake-up by shutdown()/close() of the handle, named here -
   once the handle is closed locally that read returns, without data, and cannot go back to sleep;
   so a locally closed session's worker is never stuck ... *)
Theorem C12_blocked_read_woken : forall s,
  worker s = WBlocked -> socket_open s = false ->
  step s (Read RErr) = Some (w_worker s WRaised) /\
  (is_ssh (tr s) = false -> step s (Read REof) = Some (w_worker s WAfterEof)) /\
  (forall n, step s (Read (RData n)) = None) /\
  step s Block = None /\ step s Unblock = None.
Proof. exact c12_blocked_woken. Qed.
Print Assumptions C12_blocked_read_woken.

Theorem C12_worker_progress_closed : forall s,
  not_alive (worker s) = false -> socket_open s = false ->
  exists l, is_worker_label l = true /\ step s l <> None.
Proof. exact c12_worker_progress_closed. Qed.
Print Assumptions C12_worker_progress_closed.

(* ... and close() RETURNS on every transport, whatever the worker is doing when it is called
   (C12_worker_exits_bound above bounds the worker's steps from WBlocked too: wfuel WBlocked = 12):
   a client thread anywhere inside close() can be brought to the return of close() by steps of that
   thread and of the worker alone - no step of the peer or of any other thread - and then the
   session is released. *)
Theorem C12_close_returns : forall t ls0 s rest,
  run_of t ls0 s -> cprog s = Some rest ->
  exists ls s', accepts s ls = Some s' /\ In (CloseRet Client) ls /\
    (forall l, In l ls -> is_worker_label l = true \/ l = CloseRet Client \/ exists c d, l = CStep Client c d) /\
    client_closed s' = true /\ not_alive (worker s') = true /\ connected s' = false /\ socket_open s' = false.
Proof. exact c12_close_returns. Qed.
Print Assumptions C12_close_returns.

(* In particular with the worker asleep inside a read when close() is called: nothing the worker
   can do by itself, and yet close() completes (the CloseHandle statement wakes the read: O6). *)
Theorem C12_close_wakes_blocked_read : forall t ls0 s,
  run_of t ls0 s -> ph s = PUp -> cprog s = None -> worker s = WBlocked -> socket_open s = true ->
  (forall l, is_worker_label l = true -> step s l = None) /\
  exists ls s', accepts s (CloseCall :: ls) = Some s' /\ In (CloseRet Client) ls /\
    (forall l, In l ls -> is_worker_label l = true \/ l = CloseRet Client \/ exists c d, l = CStep Client c d) /\
    client_closed s' = true /\ worker s' = WExited /\ connected s' = false /\ socket_open s' = false.
Proof. exact c12_close_wakes_blocked_read. Qed.
Print Assumptions C12_close_wakes_blocked_read.

(* no worker step - in particular no listener invocation - after close() returned (the join) *)
Theorem C12_no_late_callback : forall t ls1 ls2 s,
  run_of t (ls1 ++ CloseRet Client :: ls2) s ->
  (forall l, In l ls2 -> is_worker_label l = false /\ is_callback_label l = false) /\
  callbacks_after_close s = 0%N.
Proof. exact c12_no_late_callback. Qed.
Print Assumptions C12_no_late_callback.

(* a request made after close() returned is refused (TransportError), never accepted *)
Theorem C12_refused_after : forall t ls s rid,
  run_of t ls s -> closed_returned ls ->
  step s (Submit rid true) = None /\ (ph s = PUp -> step s (Submit rid false) = Some s).
Proof. exact c12_refused_after. Qed.
Print Assumptions C12_refused_after.

(* when the worker has ended (already: once it made its last error broadcast) every request
   accepted before that broadcast has been answered or failed; none is left pending *)
Theorem C12_pending_failed : forall t ls s,
  run_of t ls s -> past_broadcast (worker s) = true -> settled s.
Proof. exact c12_pending_failed. Qed.
Print Assumptions C12_pending_failed.

(* after a failed connect (any stage; the manager's cleanup branch has run) the session is
   closed: disconnected, handle closed, no worker, nothing pending *)
Theorem C12_failed_connect : forall t ls s,
  run_of t ls s -> ph s = PFailed -> released s /\ pending s = [] /\ late s = [].
Proof. exact c12_failed_connect. Qed.
Print Assumptions C12_failed_connect.

(* close_session() / leaving the manager's with-block - returning normally or raising -
   leaves the session released (the close in CloseSession.request's finally clause) *)
Theorem C12_close_session : forall t ls s,
  run_of t ls s -> In CsRet ls ->
  released s /\ peer_saw_eof s = true /\ callbacks_after_close s = 0%N.
Proof. exact c12_close_session. Qed.
Print Assumptions C12_close_session.

(* ---------------- SSH: the worker drains the channel buffer ---------------- *)
(* paramiko's channel still returns the data it had buffered when the transport was closed
   (observed, tools/props/c12.py paths race_read and ssh_buffered), so O1 does not hold for SSH.
   The buffer is explicit in the model instead: [chan s] is the list of chunks (one chunk = what
   one recv(BUF_SIZE) returns) held by the channel, [Arrive n] appends one while the transport
   is open (O4), a read that returns data removes the oldest one and a read returns b'' only
   when the list is empty (O5).

   Iterations after the closing flag is set: in ANY continuation [ls] (all interleavings, all
   answers of select/recv the model allows) of ANY reachable SSH state with the flag set, the
   worker begins at most 1 + (chunks buffered now) + (chunks that still arrive) selects ... *)
Theorem C12_ssh_bound_from_closing : forall ls0 s ls s',
  run_of Ssh ls0 s -> closing s = true -> accepts s ls = Some s' ->
  (count is_select_begin ls <= 1 + length (chan s) + count is_arrive ls)%nat.
Proof. exact c12_ssh_bound_from_closing. Qed.
Print Assumptions C12_ssh_bound_from_closing.

(* ... and nothing arrives once close() has closed the transport, so for EVERY list of chunks
   buffered at that time the worker begins at most 1 + length buffered further iterations. *)
Theorem C12_ssh_bound : forall buffered ls0 s ls s',
  run_of Ssh ls0 s -> closing s = true -> socket_open s = false -> chan s = buffered ->
  accepts s ls = Some s' ->
  (count is_select_begin ls <= 1 + length buffered)%nat.
Proof. exact c12_ssh_bound. Qed.
Print Assumptions C12_ssh_bound.

(* Termination: in any continuation of a locally closed SSH session the worker performs at most
   smeasure s = sfuel (worker s) + sum over the buffered chunks c of (4 + 8 * c) steps, dispatches
   and nested close() calls from callbacks included (c = messages completed by the chunk) ... *)
Theorem C12_ssh_worker_terminates : forall ls0 s ls s',
  run_of Ssh ls0 s -> closing s = true -> socket_open s = false ->
  accepts s ls = Some s' ->
  (count is_worker_label ls + smeasure s' <= smeasure s)%nat.
Proof. exact c12_ssh_worker_terminates. Qed.
Print Assumptions C12_ssh_worker_terminates.

(* ... and close() returns: a client thread inside close() (any statement of it) can always be
   brought to the return of close() by steps of that thread and of the worker alone (no step of
   the peer, of paramiko or of another client is needed), and then the worker has ended. *)
Theorem C12_ssh_close_returns : forall ls0 s rest,
  run_of Ssh ls0 s -> cprog s = Some rest ->
  exists ls s', accepts s ls = Some s' /\ In (CloseRet Client) ls /\
    (forall l, In l ls -> is_worker_label l = true \/ l = CloseRet Client \/ exists c d, l = CStep Client c d) /\
    client_closed s' = true /\ not_alive (worker s') = true /\ connected s' = false /\ socket_open s' = false.
Proof. exact c12_ssh_close_returns. Qed.
Print Assumptions C12_ssh_close_returns.

(* Non-vacuity: the worker sits in a listener callback while three chunks (completing 1, 0 and 2
   messages) arrive; close() closes the transport; the worker then begins exactly 1 + 3 iterations
   (the bound is met) and 27 steps in all, within smeasure = 16 + 8 + (4+8) + 4 + (4+16) = 60.
   The same label sequence is not a run of TLS (no channel buffer there; O1 instead). *)
Definition ex_ssh_prefix : list label :=
  [OpenHandle; SetConn; Start; SelectBegin; Select true; ReadBegin; Arrive 1; Read (RData 1); Dispatch None; HelloOk;
   SelectBegin; Select true; ReadBegin; Arrive 1; Read (RData 1);
   Arrive 1; Arrive 0; Arrive 2;
   CloseCall; CStep Client SetClosing true; CStep Client ClearConn true; CStep Client CloseHandle true].
Definition ex_ssh_drain : list label :=
  [Dispatch None;
   SelectBegin; Select true; ReadBegin; Read (RData 1); Dispatch None;
   SelectBegin; Select true; ReadBegin; Read (RData 0);
   SelectBegin; Select true; ReadBegin; Read (RData 2); Dispatch None; Dispatch None;
   SelectBegin; Select true; ReadBegin; Read REof; ChkClosing true; ErrBroadcast; Exit;
   CStep Client JoinW true; CStep Client ChanDrop true; CStep Client ClearConn true; CloseRet Client].
Example C12_ex_ssh_bound :
  let s := match accepts (init Ssh) ex_ssh_prefix with Some s => s | None => init Ssh end in
  run_of Ssh ex_ssh_prefix s /\ closing s = true /\ socket_open s = false /\ chan s = [1; 0; 2]%nat /\
  cprog s = Some [JoinW; ChanDrop; ClearConn] /\ smeasure s = 60%nat /\
  (exists s', accepts s ex_ssh_drain = Some s' /\ worker s' = WExited /\ client_closed s' = true /\
              sel_after_close s' = 4%N /\ chan s' = []) /\
  count is_select_begin ex_ssh_drain = 4%nat /\ count is_worker_label ex_ssh_drain = 23%nat /\
  step s (Arrive 1) = None /\ step s (Read REof) = None /\
  accepts (init Tls) ex_ssh_prefix = None.
Proof.
  intro s; repeat match goal with |- _ /\ _ => split end; try (vm_compute; reflexivity).
  exists (match accepts (init Ssh) (ex_ssh_prefix ++ ex_ssh_drain) with Some s => s | None => init Ssh end).
  repeat match goal with |- _ /\ _ => split end; vm_compute; reflexivity.
Qed.

(* ---------------- non-vacuity ---------------- *)
Definition st_of (t : transport) (ls : list label) : state :=
  match accepts (init t) ls with Some s => s | None => init t end.
Ltac inlist := simpl; repeat (first [left; reflexivity | right]).
Ltac conj := intros; repeat match goal with |- _ /\ _ => split end.
Ltac ex := conj; first [ vm_compute; reflexivity | inlist ].

(* Unix socket, hello received, two requests in flight, close() from a client thread while the
   worker is inside select; a third request afterwards is refused. *)
Definition ex_unix : list label :=
  [OpenHandle; SetConn; Start; SelectBegin; Select true; ReadBegin; Read (RData 1); Dispatch None; HelloOk;
   Submit 1 true; Submit 2 true; SelectBegin;
   CloseCall; CStep Client SetClosing true; CStep Client CloseHandle true; CStep Client ClearConn true;
   Select false; ChkClosing true; ErrBroadcast; Exit;
   CStep Client JoinW true; CloseRet Client; Submit 3 false].

Example C12_ex_unix : let s := st_of Unix ex_unix in
  run_of Unix ex_unix s /\ closed_returned ex_unix /\ In Start ex_unix /\
  connected s = false /\ socket_open s = false /\ peer_saw_eof s = true /\ worker s = WExited /\
  failed s = [2; 1] /\ pending s = [] /\ past_broadcast (worker s) = true /\
  step s (Submit 4 true) = None.
Proof. unfold closed_returned; ex. Qed.

(* SSH, close_session with one other request in flight: the reply of close-session is dispatched,
   the peer then closes (EOF with the closing flag not yet set => error path: the worker closes
   the session itself) while the client runs close() in the finally clause. *)
Definition ex_ssh_cs : list label :=
  [OpenHandle; SetConn; Start; SelectBegin; Select true; Arrive 1; ReadBegin; Read (RData 1); Dispatch None; HelloOk;
   Submit 1 true; MgrExit false; CsBegin; Submit 9 true;
   SelectBegin; Arrive 1; Select true; ReadBegin; Read (RData 1); Dispatch (Some 9);
   SelectBegin; Select true; ReadBegin; Read REof; ChkClosing false; ErrBroadcast; WorkerCloseCall;
   CStep Worker SetClosing true; CStep Worker ClearConn true;
   CloseCall; CStep Client SetClosing true; CStep Client ClearConn true;
   CStep Worker CloseHandle true; CStep Client CloseHandle false;
   CStep Worker JoinW false; CStep Worker ChanDrop true; CStep Worker ClearConn true; CloseRet Worker; Exit;
   CStep Client JoinW true; CStep Client ChanDrop true; CStep Client ClearConn true; CloseRet Client; CsRet].

Example C12_ex_ssh_close_session : let s := st_of Ssh ex_ssh_cs in
  run_of Ssh ex_ssh_cs s /\ In CsRet ex_ssh_cs /\ released s /\ answered s = [9] /\ failed s = [1] /\
  callbacks_after_close s = 0%N.
Proof. unfold released; ex. Qed.

(* failed authentication over SSH: connect_ssh's except-branch closes the session (no thread) *)
Definition ex_ssh_authfail : list label :=
  [OpenHandle; ConnectFail; CloseCall; CStep Client SetClosing true; CStep Client ClearConn true;
   CStep Client CloseHandle true; CStep Client JoinW false; CStep Client ChanDrop true;
   CStep Client ClearConn true; CloseRet Client].
(* failed hello over TLS (time-out): the thread runs, connect_tls closes the session and joins it *)
Definition ex_tls_hellofail : list label :=
  [OpenHandle; SetConn; Start; SelectBegin; Select false; ChkClosing false; SelectBegin; ConnectFail;
   CloseCall; CStep Client SetClosing true; CStep Client CloseHandle true; CStep Client ClearConn true;
   Select false; ChkClosing true; ErrBroadcast; Exit; CStep Client JoinW true; CloseRet Client].
(* the TLS handshake fails: connect() closes the socket it created *)
Definition ex_tls_handshakefail : list label := [OpenHandle; SockCleanup].

Example C12_ex_failed_connect :
  let s1 := st_of Ssh ex_ssh_authfail in let s2 := st_of Tls ex_tls_hellofail in
  let s3 := st_of Tls ex_tls_handshakefail in
  run_of Ssh ex_ssh_authfail s1 /\ ph s1 = PFailed /\ worker s1 = WNotStarted /\ peer_saw_eof s1 = true /\
  run_of Tls ex_tls_hellofail s2 /\ ph s2 = PFailed /\ worker s2 = WExited /\ peer_saw_eof s2 = true /\
  run_of Tls ex_tls_handshakefail s3 /\ ph s3 = PFailed /\ socket_open s3 = false.
Proof. ex. Qed.

(* the bound is met: closed locally while the worker is inside select; 4 worker steps remain *)
Definition ex_prefix : list label := firstn 16 ex_unix.
Definition ex_rest : list label := [Select false; ChkClosing true; ErrBroadcast; Exit].
Example C12_ex_bound : let s := st_of Unix ex_prefix in
  run_of Unix ex_prefix s /\ closing s = true /\ socket_open s = false /\ worker s = WSelecting /\
  (exists s', accepts s ex_rest = Some s' /\ worker s' = WExited /\ sel_after_close s' = 0%N) /\
  count is_plain_worker_label ex_rest = 4%nat /\ wfuel (worker s) = 14%nat.
Proof.
  conj; try (vm_compute; reflexivity).
  exists (st_of Unix (ex_prefix ++ ex_rest)). conj; vm_compute; reflexivity.
Qed.

(* a callback that calls close() itself: the worker continues with the message already read, then
   makes exactly one more select and ends *)
Definition ex_cbclose : list label :=
  [OpenHandle; SetConn; Start; SelectBegin; Select true; ReadBegin; Read (RData 1); Dispatch None; HelloOk;
   SelectBegin; Select true; ReadBegin; Read (RData 2); CbClose None;
   CStep Worker SetClosing true; CStep Worker CloseHandle true; CStep Worker ClearConn true;
   CStep Worker JoinW false; CloseRet Worker; Dispatch None;
   SelectBegin; Select false; ChkClosing true; ErrBroadcast; Exit].
Example C12_ex_close_in_callback : let s := st_of Unix ex_cbclose in
  run_of Unix ex_cbclose s /\ worker s = WExited /\ sel_after_close s = 1%N /\ released s.
Proof. unfold released; ex. Qed.

(* RESIDUAL (outside the property sentence, which speaks of requests in flight WHEN the session is
   closed): a request accepted after the worker's last error broadcast - here the peer closed the
   connection and the worker has not yet cleared the connected flag - is neither sent nor failed;
   it ends by its own time-out.  Not observed on the real transports (see notes/C12.md). *)
Definition ex_late : list label :=
  [OpenHandle; SetConn; Start; SelectBegin; Select true; ReadBegin; Read (RData 1); Dispatch None; HelloOk;
   SelectBegin; Select true; ReadBegin; Read REof; ChkClosing false; ErrBroadcast; Submit 7 true].
Example C12_residual_late_request : let s := st_of Unix ex_late in
  run_of Unix ex_late s /\ late s = [7] /\ pending s = [] /\ failed s = [].
Proof. ex. Qed.

(* TLS, the peer put a truncated record on the wire: select reports the socket readable, the read
   sleeps (Block).  Setting the closing flag enables nothing for the worker; the join cannot be passed;
   after CloseHandle (shutdown + close) the read returns b'' / an error (O6) and the worker ends within
   wfuel WBlocked = 12 steps, the in-flight request is failed, close() returns.  Had the peer completed
   the record instead (Unblock) the read would have gone on; after the local close it cannot. *)
Definition ex_blocked_prefix : list label :=
  [OpenHandle; SetConn; Start; SelectBegin; Select true; ReadBegin; Read (RData 1); Dispatch None; HelloOk;
   Submit 1 true; SelectBegin; Select true; ReadBegin; Block;
   CloseCall; CStep Client SetClosing true].
Definition ex_blocked_rest : list label :=
  [CStep Client CloseHandle true; CStep Client ClearConn true;
   Read REof; ChkClosing true; ErrBroadcast; Exit; CStep Client JoinW true; CloseRet Client].
Example C12_ex_blocked_read : let s := st_of Tls ex_blocked_prefix in
  run_of Tls ex_blocked_prefix s /\ worker s = WBlocked /\ closing s = true /\ socket_open s = true /\
  step s (Read REof) = None /\ step s (Read RErr) = None /\ step s (ChkClosing true) = None /\
  step s (CStep Client JoinW true) = None /\
  step s Unblock = Some (w_worker s (WReading true)) /\
  (let s' := st_of Tls (ex_blocked_prefix ++ ex_blocked_rest) in
   run_of Tls (ex_blocked_prefix ++ ex_blocked_rest) s' /\ worker s' = WExited /\ client_closed s' = true /\
   connected s' = false /\ socket_open s' = false /\ pending s' = [] /\ failed s' = [1%N] /\
   sel_after_close s' = 0%N) /\
  (let s1 := st_of Tls (ex_blocked_prefix ++ [CStep Client CloseHandle true]) in
   worker s1 = WBlocked /\ wfuel (worker s1) = 12%nat /\ step s1 Unblock = None /\
   step s1 (Read (RData 1)) = None /\ step s1 (Read RErr) <> None) /\
  accepts (init Unix) (ex_blocked_prefix ++ ex_blocked_rest) <> None /\
  count is_worker_label ex_blocked_rest = 4%nat.
Proof.
  intro s; repeat match goal with |- _ /\ _ => split | |- let _ := _ in _ => intro end;
    first [ vm_compute; reflexivity | vm_compute; discriminate ].
Qed.

(* ---------------- who calls close() (Model/CloseCallers.v) ---------------- *)
(* The one thing close() asks about its caller is `self is not threading.current_thread()`.  Every
   caller that is not the session's OWN thread - the main thread, an application thread, the thread
   of ANOTHER session whose listener closes this one - executes close() exactly as the actor Client *)
Theorem C12_caller_as_client : forall c, is_own c = false ->
  forall s st did,
    step s (CStep (actor_of c) st did) = step s (CStep Client st did) /\
    step s (CloseRet (actor_of c)) = step s (CloseRet Client).
Proof. exact c12_caller_as_client. Qed.
Print Assumptions C12_caller_as_client.

(* ... in particular the wait for the session thread: only the session's own thread skips it; any
   other caller that is past the join statement leaves a worker that has ended behind *)
Theorem C12_close_waits_unless_own : forall c s did s',
  do_cstep s (actor_of c) JoinW did = Some s' ->
  (is_own c = false -> not_alive (worker s) = true /\ s' = s) /\
  (is_own c = true -> did = false /\ s' = s).
Proof. exact c12_close_waits_unless_own. Qed.
Print Assumptions C12_close_waits_unless_own.

(* (Proofs/CloseCallersProofs.v c12_caller_released: for every caller c with is_own c = false, once
   CloseRet (actor_of c) occurred the session is released, the peer saw EOF, no late callback, the
   worker WExited, requests refused - by C12_caller_as_client and the theorems above; it is the lemma
   C12_foreign_close_released below rests on.) *)

(* Two sessions A and B in one process; a listener of one (it runs on that session's thread) closes
   the other: [FCall x; FStmt x ..; FRet x] are steps of the OTHER session's thread, which makes no
   step of its own run() meanwhile.  What each session sees of a run of the pair is a run of
   Model/Close.v in which the foreign close() is a CLIENT close(): every theorem above applies to
   each of the two sessions. *)
Theorem C12_two_sessions_project : forall ls y y' x,
  accepts2 y ls = Some y' -> accepts (sess y x) (project x ls) = Some (sess y' x).
Proof. exact c12_two_sessions_project. Qed.
Print Assumptions C12_two_sessions_project.

(* once the close() a listener of the other session called on x has returned, x is released: it is
   disconnected, its handle closed towards the peer, its worker thread ended, requests refused *)
Theorem C12_foreign_close_released : forall ta tb ls y x,
  accepts2 (init2 ta tb) ls = Some y -> In (FRet x) ls ->
  released (sess y x) /\ peer_saw_eof (sess y x) = true /\ callbacks_after_close (sess y x) = 0%N /\
  (In Start (project x ls) -> worker (sess y x) = WExited) /\
  (forall rid, step (sess y x) (Submit rid true) = None).
Proof. exact c12_foreign_close_released. Qed.
Print Assumptions C12_foreign_close_released.

(* ... and no step of x's worker - so no invocation of a listener of x - follows that return *)
Theorem C12_foreign_no_late_listener : forall ta tb l1 l2 y x,
  accepts2 (init2 ta tb) (l1 ++ FRet x :: l2) = Some y ->
  forall l, In (Own x l) l2 -> is_worker_label l = false /\ is_callback_label l = false.
Proof. exact c12_foreign_no_late_listener. Qed.
Print Assumptions C12_foreign_no_late_listener.

(* ... and that close() does return: the thread of the other session is inside x.close(), x's own
   thread is not itself inside a close() of the other session - then steps of the closer and of
   x's worker alone reach the return, with x released *)
Theorem C12_foreign_close_returns : forall ta tb ls0 y x,
  accepts2 (init2 ta tb) ls0 = Some y ->
  busy y (other x) = true -> busy y x = false ->
  exists ls y', accepts2 y ls = Some y' /\ In (FRet x) ls /\
    (forall l, In l ls -> l = FRet x \/ (exists c d, l = FStmt x c d) \/ exists wl, l = Own x wl /\ is_worker_label wl = true) /\
    busy y' (other x) = false /\ sess y' (other x) = sess y (other x) /\
    released (sess y' x) /\ client_closed (sess y' x) = true /\ peer_saw_eof (sess y' x) = true.
Proof. exact c12_foreign_close_returns. Qed.
Print Assumptions C12_foreign_close_returns.

(* Non-vacuity.  Two Unix-socket sessions, both up.  B has a request in flight and its worker sits in
   select; A receives a notification and its listener closes B (supervisor).  At B's join statement
   nothing is enabled for the closer - B's worker is alive - nor for A's own worker (its thread is the
   closer); B's worker ends (error broadcast: the request is failed), the join is passed, close()
   returns, A's thread goes on dispatching.  Afterwards no step of B's worker is accepted. *)
Definition st2_of (ta tb : transport) (ls : list label2) : sys :=
  match accepts2 (init2 ta tb) ls with Some y => y | None => init2 ta tb end.
Definition ex2_up : list label :=
  [OpenHandle; SetConn; Start; SelectBegin; Select true; ReadBegin; Read (RData 1); Dispatch None; HelloOk].
Definition ex2_sup_prefix : list label2 :=
  map (Own SA) ex2_up ++ map (Own SB) ex2_up ++
  [Own SB (Submit 1 true); Own SB SelectBegin;
   Own SA SelectBegin; Own SA (Select true); Own SA ReadBegin; Own SA (Read (RData 1));
   FCall SB; FStmt SB SetClosing true; FStmt SB CloseHandle true; FStmt SB ClearConn true].
Definition ex2_sup_rest : list label2 :=
  [Own SB (Select false); Own SB (ChkClosing true); Own SB ErrBroadcast; Own SB Exit;
   FStmt SB JoinW true; FRet SB; Own SA (Dispatch None)].
Example C12_ex_supervisor_close : let y := st2_of Unix Unix ex2_sup_prefix in
  accepts2 (init2 Unix Unix) ex2_sup_prefix = Some y /\ in_a y = true /\ in_b y = false /\
  cprog (sb y) = Some [JoinW] /\ worker (sa y) = WDispatching 1 /\ worker (sb y) = WSelecting /\
  step2 y (FStmt SB JoinW true) = None /\ step2 y (FStmt SB JoinW false) = None /\ step2 y (FRet SB) = None /\
  step2 y (Own SA (Dispatch None)) = None /\
  (let y' := st2_of Unix Unix (ex2_sup_prefix ++ ex2_sup_rest) in
   accepts2 (init2 Unix Unix) (ex2_sup_prefix ++ ex2_sup_rest) = Some y' /\ In (FRet SB) (ex2_sup_prefix ++ ex2_sup_rest) /\
   worker (sb y') = WExited /\ connected (sb y') = false /\ socket_open (sb y') = false /\ peer_saw_eof (sb y') = true /\
   failed (sb y') = [1%N] /\ pending (sb y') = [] /\ client_closed (sb y') = true /\ in_a y' = false /\
   worker (sa y') = WTop /\ connected (sa y') = true /\
   step2 y' (Own SB ErrBroadcast) = None /\ step2 y' (Own SB SelectBegin) = None) /\
  project SB (ex2_sup_prefix ++ ex2_sup_rest) =
    ex2_up ++ [Submit 1 true; SelectBegin; CloseCall; CStep Client SetClosing true; CStep Client CloseHandle true;
               CStep Client ClearConn true; Select false; ChkClosing true; ErrBroadcast; Exit;
               CStep Client JoinW true; CloseRet Client].
Proof.
  intro y; repeat match goal with |- _ /\ _ => split | |- let _ := _ in _ => intro end;
    first [ vm_compute; reflexivity | inlist ].
Qed.

(* The price of the wait (and what the assumption "listener callbacks return" excludes): two sessions
   whose listeners close EACH OTHER.  Each session thread sits at the join statement of the other
   session's close(): no step of either thread is enabled - both close() calls wait for ever.  A
   close() that does not wait when its caller is a session thread would avoid this, and would break
   C12_foreign_close_released / C12_foreign_no_late_listener for every supervisor; the source waits. *)
Definition ex2_mutual : list label2 :=
  map (Own SA) ex2_up ++ map (Own SB) ex2_up ++
  [Own SA SelectBegin; Own SA (Select true); Own SA ReadBegin; Own SA (Read (RData 1));
   Own SB SelectBegin; Own SB (Select true); Own SB ReadBegin; Own SB (Read (RData 1));
   FCall SB; FCall SA;
   FStmt SB SetClosing true; FStmt SB CloseHandle true; FStmt SB ClearConn true;
   FStmt SA SetClosing true; FStmt SA CloseHandle true; FStmt SA ClearConn true].
Example C12_ex_mutual_close_waits_for_ever : let y := st2_of Unix Unix ex2_mutual in
  accepts2 (init2 Unix Unix) ex2_mutual = Some y /\ in_a y = true /\ in_b y = true /\
  cprog (sa y) = Some [JoinW] /\ cprog (sb y) = Some [JoinW] /\
  forall l, is_thread_label2 l = true -> step2 y l = None.
Proof.
  intro y; repeat match goal with |- _ /\ _ => split end; try (vm_compute; reflexivity).
  intros l T. destruct l as [x l|x|x c d|x].
  - simpl in T. unfold step2. rewrite T. destruct x; vm_compute; reflexivity.
  - destruct x; vm_compute; reflexivity.
  - destruct x, c, d; vm_compute; reflexivity.
  - destruct x; vm_compute; reflexivity.
Qed.
