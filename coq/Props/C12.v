(* Props/C12.v — property C12: closing a session releases it completely on every transport.
   Only statements, closed by [exact], each followed by Print Assumptions.
   Model: Model/Close.v (labelled transition system of one session's life-cycle; the three
   close() bodies, Session.run, CloseSession.request, Manager.__exit__, connect_* cleanup).
   Spec: Spec/CloseSpec.v.  Every theorem quantifies over the transport t and over ALL label
   sequences accepted from the initial state (all interleavings of client and worker steps,
   all answers of select/recv, any number of in-flight requests).
   PARTIAL by nature (DESIGN 5 C12, 8): what the kernel, epoll, OpenSSL and paramiko do when a
   handle is closed enters as the oracle hypotheses O1-O3 stated at the top of Model/Close.v;
   tools/props/c12.py validates them on real Unix/TLS/SSH connections. *)
From NC Require Import Model.Base Model.Close Spec.CloseSpec Proofs.CloseProofs Proofs.CloseThms.

(* after close() returned to a client thread the session reports itself disconnected *)
Theorem C12_disconnected : forall t ls s,
  run_of t ls s -> closed_returned ls -> connected s = false.
Proof. exact c12_disconnected. Qed.
Print Assumptions C12_disconnected.

(* ... its socket / transport is closed, and (O2) the peer has seen the connection close *)
Theorem C12_peer_sees_close : forall t ls s,
  run_of t ls s -> closed_returned ls -> socket_open s = false /\ peer_saw_eof s = true.
Proof. exact c12_peer_sees_close. Qed.
Print Assumptions C12_peer_sees_close.

(* ... the worker thread has ended (or was never started: connect failed before the thread start) *)
Theorem C12_worker_exits : forall t ls s,
  run_of t ls s -> closed_returned ls ->
  not_alive (worker s) = true /\ (In Start ls -> worker s = WExited).
Proof. exact c12_worker_exited. Qed.
Print Assumptions C12_worker_exits.

(* Bound (TLS and Unix sockets; for SSH see C12_ssh_bound_partial below): once the closing flag
   is set and the handle closed, the worker begins at most ONE more select (one more loop
   iteration) ... *)
Theorem C12_worker_exits_one_iteration : forall t ls s,
  run_of t ls s -> is_ssh t = false -> (sel_after_close s <= 1)%N.
Proof. exact c12_worker_one_iteration. Qed.
Print Assumptions C12_worker_exits_one_iteration.

(* ... and in any continuation it performs at most wfuel (<= 17 outside a nested close(), <= 23
   always) steps plus 9 per message that had already been read and is still dispatched ... *)
Theorem C12_worker_exits_bound : forall t ls0 s ls s',
  run_of t ls0 s -> is_ssh t = false ->
  closing s = true -> socket_open s = false -> worker s <> WNotStarted ->
  accepts s ls = Some s' ->
  (count is_plain_worker_label ls <= wfuel (worker s) + 9 * count is_dispatch_label ls)%nat.
Proof. exact c12_worker_exits_bound. Qed.
Print Assumptions C12_worker_exits_bound.

(* ... while never being stuck: until it has ended one of its own steps is enabled. *)
Theorem C12_worker_progress : forall s,
  not_alive (worker s) = false -> exists l, is_worker_label l = true /\ step s l <> None.
Proof. exact c12_worker_progress. Qed.
Print Assumptions C12_worker_progress.

(* no worker step - in particular no listener invocation - after close() returned (the join) *)
Theorem C12_no_late_callback : forall t ls1 ls2 s,
  run_of t (ls1 ++ CloseRet Client :: ls2) s ->
  (forall l, In l ls2 -> is_worker_label l = false /\ is_callback_label l = false) /\
  callbacks_after_close s = 0%N.
Proof. exact c12_no_late_callback. Qed.
Print Assumptions C12_no_late_callback.

(* a request made after close() returned is refused (TransportError), never accepted *)
Theorem C12_refused_after : forall t ls s rid,
  run_of t ls s -> closed_returned ls ->
  step s (Submit rid true) = None /\ (ph s = PUp -> step s (Submit rid false) = Some s).
Proof. exact c12_refused_after. Qed.
Print Assumptions C12_refused_after.

(* when the worker has ended (already: once it made its last error broadcast) every request
   accepted before that broadcast has been answered or failed; none is left pending *)
Theorem C12_pending_failed : forall t ls s,
  run_of t ls s -> past_broadcast (worker s) = true -> settled s.
Proof. exact c12_pending_failed. Qed.
Print Assumptions C12_pending_failed.

(* after a failed connect (any stage; the manager's cleanup branch has run) the session is
   closed: disconnected, handle closed, no worker, nothing pending *)
Theorem C12_failed_connect : forall t ls s,
  run_of t ls s -> ph s = PFailed -> released s /\ pending s = [] /\ late s = [].
Proof. exact c12_failed_connect. Qed.
Print Assumptions C12_failed_connect.

(* close_session() / leaving the manager's with-block - returning normally or raising -
   leaves the session released (the close in CloseSession.request's finally clause) *)
Theorem C12_close_session : forall t ls s,
  run_of t ls s -> In CsRet ls ->
  released s /\ peer_saw_eof s = true /\ callbacks_after_close s = 0%N.
Proof. exact c12_close_session. Qed.
Print Assumptions C12_close_session.

(* PARTIAL for SSH: paramiko's channel still returns the data it had buffered when the transport
   was closed (observed, tools/props/c12.py path race_read), so hypothesis O1 is not assumed for
   SSH and no iteration bound is proved there: the worker drains that finite buffer (one recv of at
   most 4096 octets per iteration) and then ends.  Missing lemma: a model of the channel buffer
   (chunks received before the close) and the bound "1 + chunks buffered at close".
   What IS proved for SSH as for the others: when close() has returned the worker has ended
   (C12_worker_exits, by the join) and never runs again (C12_no_late_callback).
   Witness that the one-iteration bound is false without O1: *)
Definition ex_ssh_buffered : list label :=
  [OpenHandle; SetConn; Start; SelectBegin; Select true; ReadBegin; Read (RData 1); Dispatch None; HelloOk;
   CloseCall; CStep Client SetClosing true; CStep Client ClearConn true; CStep Client CloseHandle true;
   SelectBegin; Select true; ReadBegin; Read (RData 1); Dispatch None;
   SelectBegin; Select true; ReadBegin; Read (RData 1); Dispatch None].
Example C12_ssh_bound_partial :
  exists s, run_of Ssh ex_ssh_buffered s /\ sel_after_close s = 2%N /\ accepts (init Tls) ex_ssh_buffered = None.
Proof.
  exists (match accepts (init Ssh) ex_ssh_buffered with Some s => s | None => init Ssh end).
  repeat match goal with |- _ /\ _ => split end; vm_compute; reflexivity.
Qed.

(* ---------------- non-vacuity ---------------- *)
Definition st_of (t : transport) (ls : list label) : state :=
  match accepts (init t) ls with Some s => s | None => init t end.
Ltac inlist := simpl; repeat (first [left; reflexivity | right]).
Ltac conj := intros; repeat match goal with |- _ /\ _ => split end.
Ltac ex := conj; first [ vm_compute; reflexivity | inlist ].

(* Unix socket, hello received, two requests in flight, close() from a client thread while the
   worker is inside select; a third request afterwards is refused. *)
Definition ex_unix : list label :=
  [OpenHandle; SetConn; Start; SelectBegin; Select true; ReadBegin; Read (RData 1); Dispatch None; HelloOk;
   Submit 1 true; Submit 2 true; SelectBegin;
   CloseCall; CStep Client SetClosing true; CStep Client CloseHandle true; CStep Client ClearConn true;
   Select false; ChkClosing true; ErrBroadcast; Exit;
   CStep Client JoinW true; CloseRet Client; Submit 3 false].

Example C12_ex_unix : let s := st_of Unix ex_unix in
  run_of Unix ex_unix s /\ closed_returned ex_unix /\ In Start ex_unix /\
  connected s = false /\ socket_open s = false /\ peer_saw_eof s = true /\ worker s = WExited /\
  failed s = [2; 1] /\ pending s = [] /\ past_broadcast (worker s) = true /\
  step s (Submit 4 true) = None.
Proof. unfold closed_returned; ex. Qed.

(* SSH, close_session with one other request in flight: the reply of close-session is dispatched,
   the peer then closes (EOF with the closing flag not yet set => error path: the worker closes
   the session itself) while the client runs close() in the finally clause. *)
Definition ex_ssh_cs : list label :=
  [OpenHandle; SetConn; Start; SelectBegin; Select true; ReadBegin; Read (RData 1); Dispatch None; HelloOk;
   Submit 1 true; MgrExit false; CsBegin; Submit 9 true;
   SelectBegin; Select true; ReadBegin; Read (RData 1); Dispatch (Some 9);
   SelectBegin; Select true; ReadBegin; Read REof; ChkClosing false; ErrBroadcast; WorkerCloseCall;
   CStep Worker SetClosing true; CStep Worker ClearConn true;
   CloseCall; CStep Client SetClosing true; CStep Client ClearConn true;
   CStep Worker CloseHandle true; CStep Client CloseHandle false;
   CStep Worker JoinW false; CStep Worker ChanDrop true; CStep Worker ClearConn true; CloseRet Worker; Exit;
   CStep Client JoinW true; CStep Client ChanDrop true; CStep Client ClearConn true; CloseRet Client; CsRet].

Example C12_ex_ssh_close_session : let s := st_of Ssh ex_ssh_cs in
  run_of Ssh ex_ssh_cs s /\ In CsRet ex_ssh_cs /\ released s /\ answered s = [9] /\ failed s = [1] /\
  callbacks_after_close s = 0%N.
Proof. unfold released; ex. Qed.

(* failed authentication over SSH: connect_ssh's except-branch closes the session (no thread) *)
Definition ex_ssh_authfail : list label :=
  [OpenHandle; ConnectFail; CloseCall; CStep Client SetClosing true; CStep Client ClearConn true;
   CStep Client CloseHandle true; CStep Client JoinW false; CStep Client ChanDrop true;
   CStep Client ClearConn true; CloseRet Client].
(* failed hello over TLS (time-out): the thread runs, connect_tls closes the session and joins it *)
Definition ex_tls_hellofail : list label :=
  [OpenHandle; SetConn; Start; SelectBegin; Select false; ChkClosing false; SelectBegin; ConnectFail;
   CloseCall; CStep Client SetClosing true; CStep Client CloseHandle true; CStep Client ClearConn true;
   Select false; ChkClosing true; ErrBroadcast; Exit; CStep Client JoinW true; CloseRet Client].
(* the TLS handshake fails: connect() closes the socket it created *)
Definition ex_tls_handshakefail : list label := [OpenHandle; SockCleanup].

Example C12_ex_failed_connect :
  let s1 := st_of Ssh ex_ssh_authfail in let s2 := st_of Tls ex_tls_hellofail in
  let s3 := st_of Tls ex_tls_handshakefail in
  run_of Ssh ex_ssh_authfail s1 /\ ph s1 = PFailed /\ worker s1 = WNotStarted /\ peer_saw_eof s1 = true /\
  run_of Tls ex_tls_hellofail s2 /\ ph s2 = PFailed /\ worker s2 = WExited /\ peer_saw_eof s2 = true /\
  run_of Tls ex_tls_handshakefail s3 /\ ph s3 = PFailed /\ socket_open s3 = false.
Proof. ex. Qed.

(* the bound is met: closed locally while the worker is inside select; 4 worker steps remain *)
Definition ex_prefix : list label := firstn 16 ex_unix.
Definition ex_rest : list label := [Select false; ChkClosing true; ErrBroadcast; Exit].
Example C12_ex_bound : let s := st_of Unix ex_prefix in
  run_of Unix ex_prefix s /\ closing s = true /\ socket_open s = false /\ worker s = WSelecting /\
  (exists s', accepts s ex_rest = Some s' /\ worker s' = WExited /\ sel_after_close s' = 0%N) /\
  count is_plain_worker_label ex_rest = 4%nat /\ wfuel (worker s) = 14%nat.
Proof.
  conj; try (vm_compute; reflexivity).
  exists (st_of Unix (ex_prefix ++ ex_rest)). conj; vm_compute; reflexivity.
Qed.

(* a callback that calls close() itself: the worker continues with the message already read, then
   makes exactly one more select and ends *)
Definition ex_cbclose : list label :=
  [OpenHandle; SetConn; Start; SelectBegin; Select true; ReadBegin; Read (RData 1); Dispatch None; HelloOk;
   SelectBegin; Select true; ReadBegin; Read (RData 2); CbClose None;
   CStep Worker SetClosing true; CStep Worker CloseHandle true; CStep Worker ClearConn true;
   CStep Worker JoinW false; CloseRet Worker; Dispatch None;
   SelectBegin; Select false; ChkClosing true; ErrBroadcast; Exit].
Example C12_ex_close_in_callback : let s := st_of Unix ex_cbclose in
  run_of Unix ex_cbclose s /\ worker s = WExited /\ sel_after_close s = 1%N /\ released s.
Proof. unfold released; ex. Qed.

(* RESIDUAL (outside the property sentence, which speaks of requests in flight WHEN the session is
   closed): a request accepted after the worker's last error broadcast - here the peer closed the
   connection and the worker has not yet cleared the connected flag - is neither sent nor failed;
   it ends by its own time-out.  Not observed on the real transports (see notes/C12.md). *)
Definition ex_late : list label :=
  [OpenHandle; SetConn; Start; SelectBegin; Select true; ReadBegin; Read (RData 1); Dispatch None; HelloOk;
   SelectBegin; Select true; ReadBegin; Read REof; ChkClosing false; ErrBroadcast; Submit 7 true].
Example C12_residual_late_request : let s := st_of Unix ex_late in
  run_of Unix ex_late s /\ late s = [7] /\ pending s = [] /\ failed s = [].
Proof. ex. Qed.
