From Coq Require Import Extraction ExtrOcamlBasic.
From NC Require Import Model.Base Glue.C07_glue.
Extraction "ex_C07.ml" run.
