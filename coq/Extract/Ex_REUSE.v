From Coq Require Import Extraction ExtrOcamlBasic.
From NC Require Import Model.Base Glue.REUSE_glue.
Extraction "ex_REUSE.ml" run.
