From Coq Require Import Extraction ExtrOcamlBasic.
From NC Require Import Model.Base Glue.C13_glue.
Extraction "ex_C13.ml" run.
