From Coq Require Import Extraction ExtrOcamlBasic.
From NC Require Import Model.Base Glue.C10_glue.
Extraction "ex_C10.ml" run.
