From Coq Require Import Extraction ExtrOcamlBasic.
From NC Require Import Model.Base Glue.C06_glue.
Extraction "ex_C06.ml" run.
