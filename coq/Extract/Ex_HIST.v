From Coq Require Import Extraction ExtrOcamlBasic.
From NC Require Import Model.Base Glue.HIST_glue.
Extraction "ex_HIST.ml" run.
