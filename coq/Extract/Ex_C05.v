From Coq Require Import Extraction ExtrOcamlBasic.
From NC Require Import Model.Base Glue.C05_glue.
Extraction "ex_C05.ml" run.
