From Coq Require Import Extraction ExtrOcamlBasic.
From NC Require Import Model.Base Glue.C15_glue.
Extraction "ex_C15.ml" run.
