From Coq Require Import Extraction ExtrOcamlBasic.
From NC Require Import Model.Base Glue.C11T_glue.
Extraction "ex_C11T.ml" run.
