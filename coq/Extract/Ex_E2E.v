From Coq Require Import Extraction ExtrOcamlBasic.
From NC Require Import Model.Base Glue.E2E_glue.
Extraction "ex_E2E.ml" run.
