From Coq Require Import Extraction ExtrOcamlBasic.
From NC Require Import Model.Base Glue.C09_glue.
Extraction "ex_C09.ml" run.
