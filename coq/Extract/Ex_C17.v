From Coq Require Import Extraction ExtrOcamlBasic.
From NC Require Import Model.Base Glue.C17_glue.
Extraction "ex_C17.ml" run.
