From Coq Require Import Extraction ExtrOcamlBasic.
From NC Require Import Model.Base Glue.C01_glue.
Extraction "ex_C01.ml" run.
