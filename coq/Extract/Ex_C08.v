From Coq Require Import Extraction ExtrOcamlBasic.
From NC Require Import Model.Base Glue.C08_glue.
Extraction "ex_C08.ml" run.
