From Coq Require Import Extraction ExtrOcamlBasic.
From NC Require Import Model.Base Glue.C14_glue.
Extraction "ex_C14.ml" run.
