From Coq Require Import Extraction ExtrOcamlBasic.
From NC Require Import Model.Base Glue.C16_glue.
Extraction "ex_C16.ml" run.
