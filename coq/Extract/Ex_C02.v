From Coq Require Import Extraction ExtrOcamlBasic.
From NC Require Import Model.Base Glue.C02_glue.
Extraction "ex_C02.ml" run.
