From Coq Require Import Extraction ExtrOcamlBasic.
From NC Require Import Model.Base Glue.LTS_glue.
Extraction "ex_LTS.ml" run.
