From Coq Require Import Extraction ExtrOcamlBasic.
From NC Require Import Model.Base Glue.C12_glue.
Extraction "ex_C12.ml" run.
