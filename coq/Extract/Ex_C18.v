From Coq Require Import Extraction ExtrOcamlBasic.
From NC Require Import Model.Base Glue.C18_glue.
Extraction "ex_C18.ml" run.
