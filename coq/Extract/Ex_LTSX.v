From Coq Require Import Extraction ExtrOcamlBasic.
From NC Require Import Model.Base Glue.LTSX_glue.
Extraction "ex_LTSX.ml" run.
